#!/bin/bash
# benign_eval.sh <id> <worktree> <property> [tier]: a behaviour-preserving change (sub-agent, blind to /verif):
# confirm that it builds and the existing suite passes in its worktree, then run the property's check
# against /repo with the patch applied and restore /repo. The check must say HOLDS. Results: /verif/benign/<id>/.
id=$1; wt=$2; prop=$3; tier=${4:-quick}
export GOFLAGS=-mod=mod GOPROXY=off GOSUMDB=off GOTOOLCHAIN=local
out=/verif/benign/$id; mkdir -p $out
cp $wt/_seed/patch.diff $wt/_seed/meta.json $wt/_seed/README.md $out/ 2>/dev/null
log=$out/confirm.log; : > $log
cd $wt && git checkout -q -- . && git apply _seed/patch.diff || { echo "PATCH DOES NOT APPLY"; exit 9; }
go build ./... >> $log 2>&1; rb=$?
go test -vet=off -count=1 ./... >> $log 2>&1; rs=$?
git checkout -q -- .
echo "confirm: build_rc=$rb suite_with_patch_rc=$rs"
cd /repo && { git apply $out/patch.diff 2>/dev/null || git apply -3 $out/patch.diff; } || { echo "PATCH DOES NOT APPLY TO /repo"; git checkout -q HEAD -- . ; git reset -q; exit 9; }
cd /verif && ./check $prop $tier > $out/check_$prop.log 2>&1; rc=$?
cd /repo && git reset -q && git checkout -q -- . && git status --short | head -3
grep "^VIOLATION\|^INCONCLUSIVE\|^HOLDS" $out/check_$prop.log | cut -c1-300 | head -8
echo "check_rc=$rc"
python3 - "$out" "$prop" "$rb" "$rs" "$rc" "$tier" <<'PY'
import json,sys
out,prop,rb,rs,rc,tier=sys.argv[1:7]
try: m=json.load(open(out+'/meta.json'))
except Exception: m={}
m.update({"property":prop,"kind":"behaviour-preserving change","confirmed":{"builds_with_patch":rb=="0","existing_suite_passes_with_patch":rs=="0"},
          "check_result":{"tier":tier,"exit_code":int(rc),"holds":rc=="0"}})
json.dump(m,open(out+'/meta.json','w'),indent=1)
PY
