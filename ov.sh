#!/bin/bash
# ov.sh <pkg>: print the overlay argument for symgo (developer helper)
python3 -c "
import sys; sys.path.insert(0,'/verif')
import importlib.machinery, importlib.util
l=importlib.machinery.SourceFileLoader('chk','/verif/check'); spec=importlib.util.spec_from_loader('chk',l); m=importlib.util.module_from_spec(spec); l.exec_module(m)
print(','.join(f'{k}={v}' for k,v in m.overlay_for('$1').items()))"
