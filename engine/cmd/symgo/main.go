// symgo: bounded symbolic execution of go/ssa for in-package harnesses.
//
//	symgo -repo /repo -pkg ./src/pclog -harness VerifC18_Range -overlay virt=real,... [-d 1] [-workers 16] -out res.json
package main

import (
	"encoding/json"
	"flag"
	"fmt"
	"os"
	"sort"
	"strings"
	"sync"
	"time"

	"golang.org/x/tools/go/packages"
	"golang.org/x/tools/go/ssa"
	"golang.org/x/tools/go/ssa/ssautil"
	"symgo/interp"
)

type PathSample struct {
	Prefix   []int             `json:"prefix"`
	Outcome  string            `json:"outcome"`
	Model    map[string]string `json:"model"`
	Chooses  []int             `json:"chooses,omitempty"`
	ChooseK  map[string]int    `json:"choosek,omitempty"`
	Yields   []string          `json:"yields,omitempty"`
	Events   []string          `json:"events,omitempty"`
	Observes []string          `json:"observes,omitempty"`
	ObservesConcrete []string `json:"observes_concrete,omitempty"`
	Shapes   []string          `json:"shapes,omitempty"`
	Decls    []interp.Decl     `json:"decls,omitempty"`
}

type ViolationOut struct {
	interp.Violation
	Prefix []int          `json:"prefix"`
	Decls  []interp.Decl  `json:"decls"`
	Count  int            `json:"count"`
	Alts   []ViolationOut `json:"alts,omitempty"` // further instances of the same violation (other paths)
}

type Result struct {
	Harness       string         `json:"harness"`
	Pkg           string         `json:"pkg"`
	Verdict       string         `json:"verdict"` // holds | violated | inconclusive
	Paths         int            `json:"paths"`
	Exhausted     bool           `json:"exhausted"`
	Outcomes      map[string]int `json:"outcomes"`
	Steps         int            `json:"ssa_instructions"`
	Forks         int            `json:"forks"`
	Asserts       int            `json:"assertions_checked"`
	Delays        int            `json:"delay_bound"`
	Reached       []string       `json:"reached"`
	Functions     []string       `json:"functions_encoded"`
	Violations    []ViolationOut `json:"violations"`
	Inconclusive  []string       `json:"inconclusive"`
	Samples       []PathSample   `json:"samples"`
	Solver        map[string]any `json:"solver"`
	LoadS         float64        `json:"load_s"`
	ExploreS      float64        `json:"explore_s"`
	DistinctPaths int            `json:"distinct_paths"`
	ChoiceKinds   map[string]int `json:"choice_kinds"`
	MaxTrace      int            `json:"max_choice_depth"`
}

func main() {
	repo := flag.String("repo", "/repo", "repository root")
	pkgPath := flag.String("pkg", "", "package pattern relative to repo, e.g. ./src/pclog")
	harness := flag.String("harness", "", "harness function")
	overlay := flag.String("overlay", "", "comma separated virtual=real file pairs")
	delays := flag.Int("d", 0, "delay bound")
	workers := flag.Int("workers", 16, "parallel workers")
	maxRuns := flag.Int("max-runs", 2000000, "maximum number of paths")
	out := flag.String("out", "", "result json")
	binds := flag.String("bind", "", "comma separated target=harnessFunc")
	timeout := flag.Int("solver-timeout", 10000, "per-query timeout (ms)")
	maxSteps := flag.Int("max-steps", 3000000, "step limit per path")
	nSamples := flag.Int("samples", 4, "passing paths to export with a model")
	seed := flag.Int("seed", 0, "selects which passing paths are exported")
	solverBin := flag.String("solver", "z3 -in", "solver command")
	debug := flag.Bool("v", false, "debug")
	wall := flag.Int("wall", 0, "wall-clock budget in seconds (0 = none); exceeding it is inconclusive")
	flag.Parse()

	t0 := time.Now()
	cfg := &packages.Config{Mode: packages.LoadAllSyntax, Dir: *repo, BuildFlags: []string{"-tags=verif"},
		Overlay: map[string][]byte{}, Env: append(os.Environ(), "GOFLAGS=-mod=mod", "GOPROXY=off", "GOSUMDB=off", "GOTOOLCHAIN=local")}
	for _, kv := range strings.Split(*overlay, ",") {
		if kv == "" {
			continue
		}
		p := strings.SplitN(kv, "=", 2)
		b, err := os.ReadFile(p[1])
		if err != nil {
			fatal(err)
		}
		cfg.Overlay[p[0]] = b
	}
	pkgs, err := packages.Load(cfg, *pkgPath)
	if err != nil {
		fatal(err)
	}
	if packages.PrintErrors(pkgs) > 0 {
		os.Exit(2)
	}
	prog, spkgs := ssautil.AllPackages(pkgs, ssa.InstantiateGenerics)
	prog.Build()
	loadS := time.Since(t0).Seconds()

	e := &interp.Engine{Prog: prog, Pkg: spkgs[0], Binds: map[string]string{}, ModPath: "github.com/f1bonacc1/process-compose",
		MaxSteps: *maxSteps, Timeout: *timeout, Debug: *debug}
	for _, kv := range strings.Split(*binds, ",") {
		if kv == "" {
			continue
		}
		p := strings.SplitN(kv, "=", 2)
		e.Binds[p[0]] = p[1]
	}
	e.Prepare()

	// shared DFS frontier
	var mu sync.Mutex
	cond := sync.NewCond(&mu)
	stack := [][]int{{}}
	active := 0
	res := &Result{Harness: *harness, Pkg: *pkgPath, Outcomes: map[string]int{}, Delays: *delays, ChoiceKinds: map[string]int{}}
	reached := map[string]bool{}
	funcs := map[string]bool{}
	viol := map[string]*ViolationOut{}
	inconcl := map[string]int{}
	pathSigs := map[string]bool{}
	var solvers []*interp.Solver
	stop := false
	passing := 0
	deadline := time.Time{}
	if *wall > 0 {
		deadline = t0.Add(time.Duration(*wall) * time.Second)
	}

	t1 := time.Now()
	var wg sync.WaitGroup
	for w := 0; w < *workers; w++ {
		z := interp.NewSolver(strings.Fields(*solverBin)...)
		solvers = append(solvers, z)
		if d := os.Getenv("SYMGO_LOG"); d != "" {
			f, _ := os.Create(fmt.Sprintf("%s/solver_%d.smt2", d, w))
			z.Log = f
		}
		wg.Add(1)
		go func(z *interp.Solver) {
			defer wg.Done()
			for {
				mu.Lock()
				for len(stack) == 0 && active > 0 && !stop {
					cond.Wait()
				}
				if stop || (len(stack) == 0 && active == 0) {
					mu.Unlock()
					cond.Broadcast()
					return
				}
				prefix := stack[len(stack)-1]
				stack = stack[:len(stack)-1]
				active++
				wantModel := passing < *nSamples*8
				mu.Unlock()

				r := e.Execute(z, *harness, prefix, *delays, wantModel)

				mu.Lock()
				active--
				res.Paths++
				res.Steps += r.Steps
				res.Forks += r.Forks
				res.Asserts += r.Asserts
				oc := r.Outcome
				if i := strings.Index(oc, ":"); i > 0 && (strings.HasPrefix(oc, "inconclusive") || strings.HasPrefix(oc, "panic")) {
					oc = oc[:i]
				}
				res.Outcomes[oc]++
				if len(r.Trace) > res.MaxTrace {
					res.MaxTrace = len(r.Trace)
				}
				for l := range r.Reached {
					reached[l] = true
				}
				for f := range r.Funcs {
					funcs[f] = true
				}
				if r.Inconcl != "" {
					inconcl[r.Inconcl]++
				}
				sig := fmt.Sprint(picks(r.Trace))
				pathSigs[sig] = true
				for _, v := range r.Violations {
					key := v.Kind + "|" + v.Label + "|" + v.Shape + "|" + v.Site
					if old, ok := viol[key]; ok {
						old.Count++
						if len(old.Alts) < 3 {
							old.Alts = append(old.Alts, ViolationOut{Violation: v, Prefix: picks(r.Trace), Decls: r.Decls, Count: 1})
						}
						continue
					}
					viol[key] = &ViolationOut{Violation: v, Prefix: picks(r.Trace), Decls: r.Decls, Count: 1}
				}
				if r.Outcome == "ok" && len(r.Violations) == 0 {
					passing++
					if len(res.Samples) < *nSamples*8 {
						res.Samples = append(res.Samples, PathSample{Prefix: picks(r.Trace), Outcome: r.Outcome, Model: r.Model,
							Chooses: r.Chooses, ChooseK: r.ChooseK, Yields: r.Yields, Events: r.Events, Observes: r.Observes, ObservesConcrete: r.ObservesConcrete, Shapes: r.Shapes, Decls: r.Decls})
					}
				}
				// push alternatives for choice points discovered beyond the prefix
				for k := len(prefix); k < len(r.Trace); k++ {
					cp := r.Trace[k]
					res.ChoiceKinds[kindOf(cp.Kind)]++
					if cp.Forced {
						continue
					}
					for alt := cp.Pick + 1; alt < cp.N; alt++ {
						np := make([]int, 0, k+1)
						for j := 0; j < k; j++ {
							np = append(np, r.Trace[j].Pick)
						}
						np = append(np, alt)
						stack = append(stack, np)
					}
				}
				if res.Paths >= *maxRuns || (!deadline.IsZero() && time.Now().After(deadline)) {
					stop = true
				}
				mu.Unlock()
				cond.Broadcast()
			}
		}(z)
	}
	wg.Wait()
	res.ExploreS = time.Since(t1).Seconds()
	res.LoadS = loadS
	res.Exhausted = len(stack) == 0 && !stop
	res.DistinctPaths = len(pathSigs)
	for l := range reached {
		res.Reached = append(res.Reached, l)
	}
	sort.Strings(res.Reached)
	for f := range funcs {
		if strings.Contains(f, e.ModPath) && !strings.Contains(f, "verif") && !strings.Contains(f, "Verif") {
			res.Functions = append(res.Functions, f)
		}
	}
	sort.Strings(res.Functions)
	var vkeys []string
	for k := range viol {
		vkeys = append(vkeys, k)
	}
	sort.Strings(vkeys)
	for _, k := range vkeys {
		res.Violations = append(res.Violations, *viol[k])
	}
	for k, n := range inconcl {
		res.Inconclusive = append(res.Inconclusive, fmt.Sprintf("%s (x%d)", k, n))
	}
	sort.Strings(res.Inconclusive)
	if !res.Exhausted {
		res.Inconclusive = append(res.Inconclusive, fmt.Sprintf("exploration not exhausted (%d prefixes left; path or time budget)", len(stack)))
	}
	// sample selection by seed
	if len(res.Samples) > *nSamples {
		off := 0
		if *seed > 0 {
			off = *seed % len(res.Samples)
		}
		var sel []PathSample
		for k := 0; k < *nSamples; k++ {
			sel = append(sel, res.Samples[(off+k*(len(res.Samples) / *nSamples))%len(res.Samples)])
		}
		res.Samples = sel
	}
	q, sat, unsat, unk, errs := 0, 0, 0, 0, 0
	var st time.Duration
	for _, z := range solvers {
		q += z.Queries
		sat += z.Sat
		unsat += z.Unsat
		unk += z.Unknown
		errs += z.Errors
		st += z.Time
		z.Close()
	}
	res.Solver = map[string]any{"cmd": *solverBin, "queries": q, "sat": sat, "unsat": unsat, "unknown": unk, "errors": errs,
		"time_s": st.Seconds(), "workers": *workers, "per_query_timeout_ms": *timeout}
	switch {
	case len(res.Violations) > 0:
		res.Verdict = "violated"
	case len(res.Inconclusive) > 0:
		res.Verdict = "inconclusive"
	default:
		res.Verdict = "holds"
	}
	b, _ := json.MarshalIndent(res, "", " ")
	if *out != "" {
		os.WriteFile(*out, b, 0o644)
	}
	fmt.Printf("symgo %s/%s: verdict=%s paths=%d exhausted=%v violations=%d inconclusive=%d load=%.1fs explore=%.1fs queries=%d solver=%.1fs funcs=%d\n",
		*pkgPath, *harness, res.Verdict, res.Paths, res.Exhausted, len(res.Violations), len(res.Inconclusive), loadS, res.ExploreS, q, st.Seconds(), len(res.Functions))
	for _, v := range res.Violations {
		fmt.Printf("  violation %s[%s] site=%s shape=%s x%d model=%v %s\n", v.Label, v.Kind, v.Site, v.Shape, v.Count, v.Model, v.Detail)
	}
	for _, s := range res.Inconclusive {
		fmt.Printf("  inconclusive: %s\n", s)
	}
	if *out == "" && *debug {
		os.Stdout.Write(b)
	}
}

func kindOf(k string) string {
	if i := strings.Index(k, ":"); i > 0 {
		return k[:i]
	}
	return k
}

func picks(t []interp.ChoicePoint) []int {
	r := make([]int, len(t))
	for i, c := range t {
		r[i] = c.Pick
	}
	return r
}

func fatal(err error) {
	fmt.Fprintln(os.Stderr, "symgo:", err)
	os.Exit(2)
}
