// Copyright 2013 The Go Authors. All rights reserved.
// Use of this source code is governed by a BSD-style
// license that can be found in the LICENSE file.

package interp

// Values
//
// All interpreter values are "boxed" in the empty interface, value.
// The range of possible dynamic types within value are:
//
// - bool
// - numbers (all built-in int/float/complex types are distinguished)
// - string
// - map[value]value --- maps for which  usesBuiltinMap(keyType)
//   *hashmap        --- maps for which !usesBuiltinMap(keyType)
// - chan value
// - []value --- slices
// - iface --- interfaces.
// - structure --- structs.  Fields are ordered and accessed by numeric indices.
// - array --- arrays.
// - *value --- pointers.  Careful: *value is a distinct type from *array etc.
// - *ssa.Function \
//   *ssa.Builtin   } --- functions.  A nil 'func' is always of type *ssa.Function.
//   *closure      /
// - tuple --- as returned by Return, Next, "value,ok" modes, etc.
// - iter --- iterators from 'range' over map or string.
// - bad --- a poison pill for locals that have gone out of scope.
// - rtype -- the interpreter's concrete implementation of reflect.Type
// - **deferred -- the address of a frame's defer stack for a Defer._Stack.
//
// Note that nil is not on this list.
//
// Pay close attention to whether or not the dynamic type is a pointer.
// The compiler cannot help you since value is an empty interface.

import (
	"bytes"
	"fmt"
	"go/types"
	"io"
	"reflect"
	"strings"
	"sync"
	"unsafe"

	"golang.org/x/tools/go/ssa"
	"golang.org/x/tools/go/types/typeutil"
)

type value interface{}

type tuple []value

type array []value

type iface struct {
	t types.Type // never an "untyped" type
	v value
}

type structure []value

// For map, array, *array, slice, string or channel.
type iter interface {
	// next returns a Tuple (key, value, ok).
	// key and value are unaliased, e.g. copies of the sequence element.
	next() tuple
}

type closure struct {
	Fn  *ssa.Function
	Env []value
}

type bad struct{}

type rtype struct {
	t types.Type
}

// Hash functions and equivalence relation:

// hashString computes the FNV hash of s.
func hashString(s string) int {
	var h uint32
	for i := 0; i < len(s); i++ {
		h ^= uint32(s[i])
		h *= 16777619
	}
	return int(h)
}

var (
	mu     sync.Mutex
	hasher = typeutil.MakeHasher()
)

// hashType returns a hash for t such that
// types.Identical(x, y) => hashType(x) == hashType(y).
func hashType(t types.Type) int {
	return int(hasher.Hash(t))
}

// usesBuiltinMap returns true if the built-in hash function and
// equivalence relation for type t are consistent with those of the
// interpreter's representation of type t.  Such types are: all basic
// types (bool, numbers, string), pointers and channels.
//
// usesBuiltinMap returns false for types that require a custom map
// implementation: interfaces, arrays and structs.
//
// Panic ensues if t is an invalid map key type: function, map or slice.
func usesBuiltinMap(t types.Type) bool {
	switch t := t.(type) {
	case *types.Basic, *types.Chan, *types.Pointer:
		return true
	case *types.Named, *types.Alias:
		return usesBuiltinMap(t.Underlying())
	case *types.Interface, *types.Array, *types.Struct:
		return false
	}
	panic(fmt.Sprintf("invalid map key type: %T", t))
}

func (x array) eq(t types.Type, _y interface{}) bool {
	y := _y.(array)
	tElt := t.Underlying().(*types.Array).Elem()
	for i, xi := range x {
		if !equals(tElt, xi, y[i]) {
			return false
		}
	}
	return true
}

func (x array) hash(t types.Type) int {
	h := 0
	tElt := t.Underlying().(*types.Array).Elem()
	for _, xi := range x {
		h += hash(t, tElt, xi)
	}
	return h
}

func (x structure) eq(t types.Type, _y interface{}) bool {
	y := _y.(structure)
	tStruct := t.Underlying().(*types.Struct)
	for i, n := 0, tStruct.NumFields(); i < n; i++ {
		if f := tStruct.Field(i); !f.Anonymous() {
			if !equals(f.Type(), x[i], y[i]) {
				return false
			}
		}
	}
	return true
}

func (x structure) hash(t types.Type) int {
	tStruct := t.Underlying().(*types.Struct)
	h := 0
	for i, n := 0, tStruct.NumFields(); i < n; i++ {
		if f := tStruct.Field(i); !f.Anonymous() {
			h += hash(t, f.Type(), x[i])
		}
	}
	return h
}

// nil-tolerant variant of types.Identical.
func sameType(x, y types.Type) bool {
	if x == nil {
		return y == nil
	}
	return y != nil && types.Identical(x, y)
}

func (x iface) eq(t types.Type, _y interface{}) bool {
	y := _y.(iface)
	return sameType(x.t, y.t) && (x.t == nil || equals(x.t, x.v, y.v))
}

func (x iface) hash(outer types.Type) int {
	return hashType(x.t)*8581 + hash(outer, x.t, x.v)
}

func (x rtype) hash(_ types.Type) int {
	return hashType(x.t)
}

func (x rtype) eq(_ types.Type, y interface{}) bool {
	return types.Identical(x.t, y.(rtype).t)
}

// equals returns true iff x and y are equal according to Go's
// linguistic equivalence relation for type t.
// In a well-typed program, the dynamic types of x and y are
// guaranteed equal.
func equals(t types.Type, x, y value) bool {
	switch x := x.(type) {
	case bool:
		return x == y.(bool)
	case int:
		return x == y.(int)
	case int8:
		return x == y.(int8)
	case int16:
		return x == y.(int16)
	case int32:
		return x == y.(int32)
	case int64:
		return x == y.(int64)
	case uint:
		return x == y.(uint)
	case uint8:
		return x == y.(uint8)
	case uint16:
		return x == y.(uint16)
	case uint32:
		return x == y.(uint32)
	case uint64:
		return x == y.(uint64)
	case uintptr:
		return x == y.(uintptr)
	case float32:
		return x == y.(float32)
	case float64:
		return x == y.(float64)
	case complex64:
		return x == y.(complex64)
	case complex128:
		return x == y.(complex128)
	case string:
		return x == y.(string)
	case *value:
		return x == y.(*value)
	case *vchan:
		return x == y.(*vchan)
	case *verr:
		yy, ok := y.(*verr)
		return ok && x == yy
	case *vctx:
		yy, ok := y.(*vctx)
		return ok && x == yy
	case nativeFn:
		return false
	case structure:
		return x.eq(t, y)
	case array:
		return x.eq(t, y)
	case iface:
		return x.eq(t, y)
	case rtype:
		return x.eq(t, y)
	}

	// Since map, func and slice don't support comparison, this
	// case is only reachable if one of x or y is literally nil
	// (handled in eqnil) or via interface{} values.
	panic(fmt.Sprintf("comparing uncomparable type %s", t))
}

// Returns an integer hash of x such that equals(x, y) => hash(x) == hash(y).
// The outer type is used only for the "unhashable" panic message.
func hash(outer, t types.Type, x value) int {
	switch x := x.(type) {
	case bool:
		if x {
			return 1
		}
		return 0
	case int:
		return x
	case int8:
		return int(x)
	case int16:
		return int(x)
	case int32:
		return int(x)
	case int64:
		return int(x)
	case uint:
		return int(x)
	case uint8:
		return int(x)
	case uint16:
		return int(x)
	case uint32:
		return int(x)
	case uint64:
		return int(x)
	case uintptr:
		return int(x)
	case float32:
		return int(x)
	case float64:
		return int(x)
	case complex64:
		return int(real(x))
	case complex128:
		return int(real(x))
	case string:
		return hashString(x)
	case *value:
		return int(uintptr(unsafe.Pointer(x)))
	case *vchan:
		return int(uintptr(unsafe.Pointer(x)))
	case structure:
		return x.hash(t)
	case array:
		return x.hash(t)
	case iface:
		return x.hash(t)
	case rtype:
		return x.hash(t)
	}
	panic(fmt.Sprintf("unhashable type %v", outer))
}

// reflect.Value struct values don't have a fixed shape, since the
// payload can be a scalar or an aggregate depending on the instance.
// So store (and load) can't simply use recursion over the shape of the
// rhs value, or the lhs, to copy the value; we need the static type
// information.  (We can't make reflect.Value a new basic data type
// because its "structness" is exposed to Go programs.)

// load returns the value of type T in *addr.
func load(T types.Type, addr *value) value {
	switch T := T.Underlying().(type) {
	case *types.Struct:
		v := (*addr).(structure)
		a := make(structure, len(v))
		for i := range a {
			a[i] = load(T.Field(i).Type(), &v[i])
		}
		return a
	case *types.Array:
		v := (*addr).(array)
		a := make(array, len(v))
		for i := range a {
			a[i] = load(T.Elem(), &v[i])
		}
		return a
	default:
		return *addr
	}
}

// store stores value v of type T into *addr.
func store(T types.Type, addr *value, v value) {
	switch T := T.Underlying().(type) {
	case *types.Struct:
		lhs := (*addr).(structure)
		rhs := v.(structure)
		for i := range lhs {
			store(T.Field(i).Type(), &lhs[i], rhs[i])
		}
	case *types.Array:
		lhs := (*addr).(array)
		rhs := v.(array)
		for i := range lhs {
			store(T.Elem(), &lhs[i], rhs[i])
		}
	default:
		*addr = v
	}
}

// Prints in the style of built-in println.
// (More or less; in gc println is actually a compiler intrinsic and
// can distinguish println(1) from println(interface{}(1)).)
func writeValue(buf *bytes.Buffer, v value) {
	switch v := v.(type) {
	case nil, bool, int, int8, int16, int32, int64, uint, uint8, uint16, uint32, uint64, uintptr, float32, float64, complex64, complex128, string:
		fmt.Fprintf(buf, "%v", v)

	case map[value]value:
		buf.WriteString("map[")
		sep := ""
		for k, e := range v {
			buf.WriteString(sep)
			sep = " "
			writeValue(buf, k)
			buf.WriteString(":")
			writeValue(buf, e)
		}
		buf.WriteString("]")

	case *hashmap:
		buf.WriteString("map[")
		sep := " "
		for _, e := range v.entries() {
			for e != nil {
				buf.WriteString(sep)
				sep = " "
				writeValue(buf, e.key)
				buf.WriteString(":")
				writeValue(buf, e.value)
				e = e.next
			}
		}
		buf.WriteString("]")

	case *vchan:
		fmt.Fprintf(buf, "%p", v) // (an address)

	case *value:
		if v == nil {
			buf.WriteString("<nil>")
		} else {
			fmt.Fprintf(buf, "%p", v)
		}

	case iface:
		fmt.Fprintf(buf, "(%s, ", v.t)
		writeValue(buf, v.v)
		buf.WriteString(")")

	case structure:
		buf.WriteString("{")
		for i, e := range v {
			if i > 0 {
				buf.WriteString(" ")
			}
			writeValue(buf, e)
		}
		buf.WriteString("}")

	case array:
		buf.WriteString("[")
		for i, e := range v {
			if i > 0 {
				buf.WriteString(" ")
			}
			writeValue(buf, e)
		}
		buf.WriteString("]")

	case []value:
		buf.WriteString("[")
		for i, e := range v {
			if i > 0 {
				buf.WriteString(" ")
			}
			writeValue(buf, e)
		}
		buf.WriteString("]")

	case *ssa.Function, *ssa.Builtin, *closure:
		fmt.Fprintf(buf, "%p", v) // (an address)

	case rtype:
		buf.WriteString(v.t.String())

	case tuple:
		// Unreachable in well-formed Go programs
		buf.WriteString("(")
		for i, e := range v {
			if i > 0 {
				buf.WriteString(", ")
			}
			writeValue(buf, e)
		}
		buf.WriteString(")")

	default:
		fmt.Fprintf(buf, "<%T>", v)
	}
}

// Implements printing of Go values in the style of built-in println.
func toString(v value) string {
	var b bytes.Buffer
	writeValue(&b, v)
	return b.String()
}

// ------------------------------------------------------------------------
// Iterators

type stringIter struct {
	*strings.Reader
	i int
}

func (it *stringIter) next() tuple {
	okv := make(tuple, 3)
	ch, n, err := it.ReadRune()
	ok := err != io.EOF
	okv[0] = ok
	if ok {
		okv[1] = it.i
		okv[2] = ch
	}
	it.i += n
	return okv
}

type mapIter struct {
	iter *reflect.MapIter
	ok   bool
}

func (it *mapIter) next() tuple {
	it.ok = it.iter.Next()
	if !it.ok {
		return []value{false, nil, nil}
	}
	k, v := it.iter.Key().Interface(), it.iter.Value().Interface()
	return []value{true, k, v}
}

type hashmapIter struct {
	r    *Run
	sym  bool
	ents []*entry
}

func (it *hashmapIter) next() tuple {
	if len(it.ents) == 0 {
		return []value{false, nil, nil}
	}
	idx := 0
	if it.sym && len(it.ents) > 1 {
		idx = it.r.S.choose("maporder", len(it.ents))
	}
	e := it.ents[idx]
	it.ents = append(append([]*entry{}, it.ents[:idx]...), it.ents[idx+1:]...)
	return []value{true, e.key, e.value}
}
