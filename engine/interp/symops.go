package interp

import (
	"fmt"
	"go/token"
	"go/types"
	"sort"
	"strings"

	"golang.org/x/tools/go/ssa"
)

// binopChecked is binop plus the Go run-time checks that involve symbolic operands.
func (r *Run) binopChecked(op token.Token, t types.Type, x, y value) value {
	if isSymstr(x) || isSymstr(y) {
		return symstrBinop(op, x, y)
	}
	if (op == token.EQL || op == token.NEQ) && (containsSym(x) || containsSym(y)) && !isSym(x) && !isSym(y) {
		// == on structs / arrays / interfaces with symbolic leaves: a conjunction of leaf equalities
		conj := []string{}
		res := value(false)
		if shallowEq(x, y, &conj) {
			res = true
			if len(conj) == 1 {
				res = symv{'b', conj[0]}
			} else if len(conj) > 1 {
				res = symv{'b', "(and " + strings.Join(conj, " ") + ")"}
			}
		}
		if op == token.NEQ {
			return notVal(res)
		}
		return res
	}
	if isSym(x) || isSym(y) {
		if op == token.QUO || op == token.REM {
			if _, k := toTerm(y); k == 'i' {
				yt, _ := toTerm(y)
				if r.branch(symv{'b', "(= " + yt + " " + bvlit(0) + ")"}) {
					panic(targetPanic{"runtime error: integer divide by zero"})
				}
			}
		}
		if op == token.SHL || op == token.SHR {
			// negative signed shift count panics
			if sy, ok := y.(symv); ok {
				_ = sy
			}
		}
		return symBinop(op, t, x, y)
	}
	return binop(op, t, x, y)
}

// sliceOp implements x[lo:hi:max] including abstract and symbolic cases.
func (r *Run) sliceOp(x, lo, hi, max value) value {
	switch xs := x.(type) {
	case *absSlice:
		return r.symSlice(xs, lo, hi)
	case symstr:
		l, h := 0, len(xs.b)
		if lo != nil {
			if sv, ok := lo.(symv); ok {
				if !r.branch(symv{'b', fmt.Sprintf("(and (bvsle %s %s) (bvsle %s %s))", bvlit(0), sv.term, sv.term, bvlit(int64(len(xs.b))))}) {
					panic(targetPanic{"runtime error: slice bounds out of range"})
				}
				lo = int(r.concretize(sv, len(xs.b)+1, "string slice low"))
			}
			l = int(asInt64(lo))
		}
		if hi != nil {
			if sv, ok := hi.(symv); ok {
				if !r.branch(symv{'b', fmt.Sprintf("(and (bvsle %s %s) (bvsle %s %s))", bvlit(int64(l)), sv.term, sv.term, bvlit(int64(len(xs.b))))}) {
					panic(targetPanic{"runtime error: slice bounds out of range"})
				}
				hi = int(r.concretize(sv, len(xs.b)+1, "string slice high"))
			}
			h = int(asInt64(hi))
		}
		if l < 0 || l > h || h > len(xs.b) {
			panic(targetPanic{fmt.Sprintf("runtime error: slice bounds out of range [%d:%d] with length %d", l, h, len(xs.b))})
		}
		return mkStr(xs.b[l:h])
	case symv: // string
		l, h := lo, hi
		if l == nil {
			l = 0
		}
		lt, _ := toTerm(l)
		ln := "((_ int2bv 64) (str.len " + xs.term + "))"
		ht := ln
		if h != nil {
			ht, _ = toTerm(h)
		}
		ok := symv{'b', fmt.Sprintf("(and (bvsle %s %s) (bvsle %s %s) (bvsle %s %s))", bvlit(0), lt, lt, ht, ht, ln)}
		if !r.branch(ok) {
			panic(targetPanic{"runtime error: slice bounds out of range"})
		}
		return symv{'s', fmt.Sprintf("(str.substr %s (bv2nat %s) (bv2nat (bvsub %s %s)))", xs.term, lt, ht, lt)}
	}
	if isSym(lo) || isSym(hi) || isSym(max) {
		if s, ok := x.(string); ok {
			return r.sliceOp(symv{'s', smtString(s)}, lo, hi, max)
		}
		// concrete backing, symbolic bounds: check the Go bounds predicate symbolically, then
		// fork over the feasible concrete bounds
		var capv int
		switch xs := x.(type) {
		case []value:
			capv = cap(xs)
		case *value:
			capv = len((*xs).(array))
		default:
			panic(fmt.Sprintf("slice of %T with symbolic bounds", x))
		}
		l, h := lo, hi
		if l == nil {
			l = 0
		}
		if h == nil {
			switch xs := x.(type) {
			case []value:
				h = len(xs)
			default:
				h = capv
			}
		}
		lt, _ := toTerm(l)
		ht, _ := toTerm(h)
		ok := symv{'b', fmt.Sprintf("(and (bvsle %s %s) (bvsle %s %s) (bvsle %s %s))", bvlit(0), lt, lt, ht, ht, bvlit(int64(capv)))}
		if !r.branch(ok) {
			panic(targetPanic{"runtime error: slice bounds out of range"})
		}
		if sv, ok := l.(symv); ok {
			lo = int(r.concretize(sv, capv+1, "slice low bound"))
		}
		if sv, ok := h.(symv); ok {
			hi = int(r.concretize(sv, capv+1, "slice high bound"))
		}
		if sv, ok := max.(symv); ok {
			max = int(r.concretize(sv, capv+1, "slice max bound"))
		}
	}
	return slice(x, lo, hi, max)
}

func (r *Run) concInt(v value, what string) int64 {
	if sv, ok := v.(symv); ok {
		return r.concretize(sv, 32, what)
	}
	return asInt64(v)
}

// concIndex turns a symbolic index into a concrete one: bounds check symbolically
// (false side: panic path), then fork over feasible in-range values.
func (r *Run) concIndex(idx value, x value) value {
	sv := idx.(symv)
	n := -1
	switch xs := x.(type) {
	case []value:
		n = len(xs)
	case *value:
		if a, ok := (*xs).(array); ok {
			n = len(a)
		}
	case array:
		n = len(xs)
	case string:
		n = len(xs)
	case symstr:
		n = len(xs.b)
	case symv:
		return idx
	}
	if n < 0 {
		panic(fmt.Sprintf("symbolic index into %T", x))
	}
	ok := symv{'b', fmt.Sprintf("(and (bvsle %s %s) (bvslt %s %s))", bvlit(0), sv.term, sv.term, bvlit(int64(n)))}
	if !r.branch(ok) {
		panic(targetPanic{fmt.Sprintf("runtime error: index out of range [symbolic] with length %d", n)})
	}
	return int(r.concretize(sv, n+1, "index"))
}

func (r *Run) symStrIndex(s symv, idx value) value {
	it, _ := toTerm(idx)
	ok := symv{'b', fmt.Sprintf("(and (bvsle %s %s) (bvslt %s ((_ int2bv 64) (str.len %s))))", bvlit(0), it, it, s.term)}
	if !r.branch(ok) {
		panic(targetPanic{"runtime error: index out of range (string)"})
	}
	return symv{'i', fmt.Sprintf("((_ int2bv 64) (str.to_code (str.at %s (bv2nat %s))))", s.term, it)}
}

// concKey makes a map key concrete: a symbolic string/int key forks over the keys
// present in the map plus one "fresh" alternative.
func (r *Run) concKey(k value, m value) value {
	if ss, ok := k.(symstr); ok {
		return r.concKeyBytes(ss, m)
	}
	sv, ok := k.(symv)
	if !ok {
		return k
	}
	var keys []value
	switch mm := m.(type) {
	case map[value]value:
		for kk := range mm {
			keys = append(keys, kk)
		}
	default:
		panic(fmt.Sprintf("symbolic key for map type %T", m))
	}
	sort.Slice(keys, func(i, j int) bool { return toString(keys[i]) < toString(keys[j]) })
	for _, kk := range keys {
		if isSym(kk) {
			continue
		}
		kt, kk2 := toTerm(kk)
		if kk2 != sv.k {
			continue
		}
		if r.branch(symv{'b', "(= " + sv.term + " " + kt + ")"}) {
			return kk
		}
	}
	// none of the present keys: pick a witness value from the model
	st, mod := r.Z.Check("", []string{sv.term})
	if st != "sat" {
		r.inconclusive("cannot find a witness for a fresh map key")
	}
	switch sv.k {
	case 's':
		s, ok := DecodeString(mod[sv.term])
		if !ok {
			r.inconclusive("cannot decode string model " + mod[sv.term])
		}
		// the witness stands for "any key not in the map": keep it symbolic in the path
		// condition only through the disequalities already added, but the concrete heap
		// needs one value
		r.addPC("(= " + sv.term + " " + smtString(s) + ")")
		return s
	case 'i':
		n, _ := DecodeBV(mod[sv.term])
		r.addPC("(= " + sv.term + " " + bvlit(n) + ")")
		return int(n)
	}
	panic("symbolic bool as map key")
}

// loopCheck enforces the unwinding bound: re-entering the same block of the same frame
// more than Unwind times ends the path as inconclusive (unwinding assertion).
func (r *Run) loopCheck(fr *frame) {
	b := fr.block
	if b == nil || len(b.Preds) < 2 || !fr.mod {
		return
	}
	k := loopKey{fr, b}
	r.loops[k]++
	if r.loops[k] > r.Unwind {
		r.inconclusive(fmt.Sprintf("unwinding bound %d exceeded in %s", r.Unwind, fr.fn))
	}
}

func (i *interpreter) isMod(fn *ssa.Function) bool {
	p := fn.Pkg
	if p == nil {
		if o := fn.Origin(); o != nil {
			p = o.Pkg
		}
	}
	if p == nil && fn.Parent() != nil {
		return i.isMod(fn.Parent())
	}
	return p != nil && strings.HasPrefix(p.Pkg.Path(), i.R.E.ModPath)
}

// checkGlobal flags reads of foreign package-level variables whose initialiser was not run.
func (i *interpreter) checkGlobal(g *ssa.Global) {
	e := i.R.E
	if e.needsInit == nil || !e.needsInit[g] {
		return
	}
	if i.globalSet[g] {
		return
	}
	i.R.inconclusive("read of foreign global with unexecuted initialiser: " + g.String())
}

// concKeyBytes: a byte-vector string used as a map key forks over equality with the
// present keys of the same length; otherwise its bytes are fixed by a model witness.
func (r *Run) concKeyBytes(ss symstr, m value) value {
	mm, ok := m.(map[value]value)
	if !ok {
		panic(fmt.Sprintf("symbolic key for map type %T", m))
	}
	var keys []string
	for kk := range mm {
		if s, ok := kk.(string); ok && len(s) == len(ss.b) {
			keys = append(keys, s)
		}
	}
	sort.Strings(keys)
	for _, kk := range keys {
		kb, _ := strBytes(kk)
		if r.decide(symstrEq(ss.b, kb)) {
			return kk
		}
	}
	return r.witnessBytes(ss)
}

// witnessBytes fixes the symbolic bytes of s to a model value (adds the equalities to
// the path condition) and returns the concrete string.
func (r *Run) witnessBytes(ss symstr) string {
	var want []string
	for _, b := range ss.b {
		if sv, ok := b.(symv); ok {
			want = append(want, sv.term)
		}
	}
	st, mod := r.Z.Check("", want)
	if st != "sat" {
		r.inconclusive("cannot find a witness for a symbolic string")
	}
	out := make([]byte, len(ss.b))
	for i, b := range ss.b {
		if sv, ok := b.(symv); ok {
			n, _ := DecodeBV(mod[sv.term])
			out[i] = byte(n)
			r.addPC("(= " + sv.term + " " + bvlit(n) + ")")
		} else {
			out[i] = b.(byte)
		}
	}
	return string(out)
}

// mapOrderOpen: is the iteration order of a range statement in this frame a choice?
// Only in code of the module under test (harness and foreign helpers iterate in sorted
// order), and - when the harness named functions - only in those.
func (r *Run) mapOrderOpen(fr *frame) bool {
	if !r.MapOrderSymbolic || !fr.mod {
		return false
	}
	name := fr.fn.String()
	if strings.Contains(fr.fn.Name(), "verif") || strings.Contains(fr.fn.Name(), "Verif") {
		return false
	}
	if len(r.MapOrderFuncs) == 0 {
		return true
	}
	for _, f := range r.MapOrderFuncs {
		if strings.Contains(name, f) {
			return true
		}
	}
	return false
}

func containsSym(v value) bool {
	switch x := v.(type) {
	case symv, symstr:
		return true
	case structure:
		for _, e := range x {
			if containsSym(e) {
				return true
			}
		}
	case array:
		for _, e := range x {
			if containsSym(e) {
				return true
			}
		}
	case iface:
		return containsSym(x.v)
	}
	return false
}

// shallowEq is Go's == on comparable values (pointers by identity) with symbolic leaves
// contributing equalities to conj.
func shallowEq(a, b value, conj *[]string) bool {
	if isSymstr(a) || isSymstr(b) {
		x, ok1 := strBytes(a)
		y, ok2 := strBytes(b)
		if ok1 && ok2 {
			switch e := symstrEq(x, y).(type) {
			case bool:
				return e
			case symv:
				*conj = append(*conj, e.term)
				return true
			}
		}
		ta, _ := toTerm(a)
		tb, _ := toTerm(b)
		*conj = append(*conj, "(= "+ta+" "+tb+")")
		return true
	}
	if isSym(a) || isSym(b) {
		ta, ka := toTerm(a)
		tb, kb := toTerm(b)
		if ka != kb {
			return false
		}
		*conj = append(*conj, "(= "+ta+" "+tb+")")
		return true
	}
	switch x := a.(type) {
	case structure:
		y, ok := b.(structure)
		if !ok || len(x) != len(y) {
			return false
		}
		for i := range x {
			if !shallowEq(x[i], y[i], conj) {
				return false
			}
		}
		return true
	case array:
		y, ok := b.(array)
		if !ok || len(x) != len(y) {
			return false
		}
		for i := range x {
			if !shallowEq(x[i], y[i], conj) {
				return false
			}
		}
		return true
	case iface:
		y, ok := b.(iface)
		if !ok {
			return false
		}
		if x.t == nil || y.t == nil {
			return x.t == nil && y.t == nil
		}
		if !types.Identical(x.t, y.t) {
			return false
		}
		return shallowEq(x.v, y.v, conj)
	case *value:
		y, ok := b.(*value)
		return ok && x == y
	}
	return a == b
}
