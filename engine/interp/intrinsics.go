package interp

import (
	"fmt"
	"go/token"
	"go/types"
	"reflect"
	"strings"

	"golang.org/x/tools/go/ssa"
)

type nativeFn func(fr *frame, args []value) value

// native objects living behind interfaces (context, error)
type nativeObj interface {
	invoke(fr *frame, method string, args []value) value
}

type verr struct {
	msg  string
	wrap *verr
	data value // optional payload (e.g. *ExitError emulation not needed; kept for errors.As)
}

func (e *verr) invoke(fr *frame, m string, args []value) value {
	if m == "Error" {
		return e.msg
	}
	if m == "Unwrap" {
		if e.wrap == nil {
			return iface{}
		}
		return fr.i.mkErr(e.wrap)
	}
	if m == "Timeout" || m == "Temporary" {
		return e == errDeadline
	}
	panic("verr." + m)
}

var errCanceled = &verr{msg: "context canceled"}
var errDeadline = &verr{msg: "context deadline exceeded"}
var errEOF = &verr{msg: "EOF"}
var errNotExist = &verr{msg: "file does not exist"}
var errSyntax = &verr{msg: "invalid syntax"}
var errRange = &verr{msg: "value out of range"}

type vctx struct {
	parent *vctx
	done   *vchan
	err    *verr
	cause  value // iface
	kids   []*vctx
	timer  *vtimer
}

func (c *vctx) cancel(i *interpreter, err *verr, cause value) {
	if c.err != nil {
		return
	}
	c.err = err
	if cause == nil {
		cause = i.mkErr(err)
	}
	c.cause = cause
	if c.done != nil && !c.done.closed {
		c.done.closed = true
	}
	if c.timer != nil {
		c.timer.stopped = true
	}
	for _, k := range c.kids {
		k.cancel(i, err, cause)
	}
}

func (c *vctx) invoke(fr *frame, m string, args []value) value {
	switch m {
	case "Done":
		if c.done == nil {
			return (*vchan)(nil)
		}
		return c.done
	case "Err":
		if c.err == nil {
			return iface{}
		}
		return fr.i.mkErr(c.err)
	case "Value":
		return iface{}
	case "Deadline":
		return tuple{zero(fr.i.timeType()), false}
	}
	panic("vctx." + m)
}

func (i *interpreter) timeType() types.Type {
	return i.prog.ImportedPackage("time").Type("Time").Object().Type()
}

func (i *interpreter) mkErr(e *verr) value {
	if e == nil {
		return iface{}
	}
	return iface{t: i.errType, v: e}
}
func (i *interpreter) mkCtx(c *vctx) value { return iface{t: i.ctxType, v: c} }

func newCtx(parent value) *vctx {
	c := &vctx{done: &vchan{}}
	if pi, ok := parent.(iface); ok {
		if p, ok := pi.v.(*vctx); ok && p != nil {
			c.parent = p
			p.kids = append(p.kids, c)
			if p.err != nil {
				c.err = p.err
				c.cause = p.cause
				c.done.closed = true
			}
		}
	}
	return c
}

// ---- sync state tables keyed by address ----
type mutexSt struct {
	locked  bool
	readers int
}
type condSt struct{ gen int }
type wgSt struct{ n int }
type onceSt struct{ done bool }

func (r *Run) mtx(a *value) *mutexSt {
	m := r.mutexes[a]
	if m == nil {
		m = &mutexSt{}
		r.mutexes[a] = m
	}
	return m
}

func zeroResults(fn *ssa.Function) value {
	res := fn.Signature.Results()
	switch res.Len() {
	case 0:
		return nil
	case 1:
		return zero(res.At(0).Type())
	}
	var t tuple
	for k := 0; k < res.Len(); k++ {
		t = append(t, zero(res.At(k).Type()))
	}
	return t
}

func str(v value) string { return v.(string) }

func goStrings(v value) []string {
	var r []string
	for _, x := range v.([]value) {
		r = append(r, x.(string))
	}
	return r
}
func valStrings(ss []string) []value {
	r := make([]value, len(ss))
	for i, s := range ss {
		r[i] = s
	}
	return r
}
func goBytes(v value) []byte {
	vs := v.([]value)
	b := make([]byte, len(vs))
	for i, x := range vs {
		b[i] = x.(byte)
	}
	return b
}
func valBytes(b []byte) []value {
	r := make([]value, len(b))
	for i, c := range b {
		r[i] = c
	}
	return r
}

// callMethod invokes an interpreted method by name on a receiver with dynamic type t.
func callMethod(fr *frame, recv iface, name string, args ...value) value {
	if no, ok := recv.v.(nativeObj); ok {
		return no.invoke(fr, name, args)
	}
	ms := fr.i.prog.MethodSets.MethodSet(recv.t)
	for k := 0; k < ms.Len(); k++ {
		sel := ms.At(k)
		if sel.Obj().Name() == name {
			f := fr.i.prog.MethodValue(sel)
			return call(fr.i, fr, token.NoPos, f, append([]value{recv.v}, args...))
		}
	}
	panic("no method " + name + " on " + recv.t.String())
}

// Hooks: engine intrinsics with real semantics, keyed by ssa.Function.String().
var Hooks = map[string]nativeFn{}

func unwrapErr(v value) *verr {
	if it, ok := v.(iface); ok {
		if e, ok := it.v.(*verr); ok {
			return e
		}
	}
	return nil
}

// errorString renders any error value (native or interpreted) to its message.
func errorString(fr *frame, v value) string {
	it, ok := v.(iface)
	if !ok || it.t == nil {
		return "<nil>"
	}
	if e, ok := it.v.(*verr); ok {
		return e.msg
	}
	r := callMethod(fr, it, "Error")
	if s, ok := r.(string); ok {
		return s
	}
	return "<symbolic error text>"
}

func init() {
	h := Hooks
	// ---- sync ----
	h["(*sync.Mutex).Lock"] = func(fr *frame, args []value) value {
		r := fr.i.R
		m := r.mtx(args[0].(*value))
		r.S.Block("mutex", func() bool { return !m.locked && m.readers == 0 })
		m.locked = true
		return nil
	}
	h["(*sync.Mutex).TryLock"] = func(fr *frame, args []value) value {
		m := fr.i.R.mtx(args[0].(*value))
		if m.locked || m.readers > 0 {
			return false
		}
		m.locked = true
		return true
	}
	h["(*sync.Mutex).Unlock"] = func(fr *frame, args []value) value {
		m := fr.i.R.mtx(args[0].(*value))
		if !m.locked {
			panic(targetPanic{"sync: unlock of unlocked mutex"})
		}
		m.locked = false
		return nil
	}
	h["(*sync.RWMutex).Lock"] = h["(*sync.Mutex).Lock"]
	h["(*sync.RWMutex).Unlock"] = h["(*sync.Mutex).Unlock"]
	h["(*sync.RWMutex).RLock"] = func(fr *frame, args []value) value {
		r := fr.i.R
		m := r.mtx(args[0].(*value))
		r.S.Block("rwmutex.r", func() bool { return !m.locked })
		m.readers++
		return nil
	}
	h["(*sync.RWMutex).RUnlock"] = func(fr *frame, args []value) value {
		m := fr.i.R.mtx(args[0].(*value))
		if m.readers <= 0 {
			panic(targetPanic{"sync: RUnlock of unlocked RWMutex"})
		}
		m.readers--
		return nil
	}
	h["sync.NewCond"] = func(fr *frame, args []value) value {
		ct := fr.i.prog.ImportedPackage("sync").Type("Cond").Object().Type()
		st := zero(ct).(structure)
		st[1] = args[0]
		var cell value = st
		return &cell
	}
	cond := func(fr *frame, a *value) *condSt {
		c := fr.i.R.conds[a]
		if c == nil {
			c = &condSt{}
			fr.i.R.conds[a] = c
		}
		return c
	}
	h["(*sync.Cond).Wait"] = func(fr *frame, args []value) value {
		a := args[0].(*value)
		c := cond(fr, a)
		L := (*a).(structure)[1].(iface)
		gen := c.gen
		callMethod(fr, L, "Unlock")
		fr.i.R.S.Block("cond", func() bool { return c.gen != gen })
		callMethod(fr, L, "Lock")
		return nil
	}
	h["(*sync.Cond).Broadcast"] = func(fr *frame, args []value) value {
		cond(fr, args[0].(*value)).gen++
		return nil
	}
	h["(*sync.Cond).Signal"] = h["(*sync.Cond).Broadcast"] // spurious wake-ups are allowed by the contract
	wg := func(fr *frame, a *value) *wgSt {
		w := fr.i.R.wgs[a]
		if w == nil {
			w = &wgSt{}
			fr.i.R.wgs[a] = w
		}
		return w
	}
	h["(*sync.WaitGroup).Add"] = func(fr *frame, args []value) value {
		w := wg(fr, args[0].(*value))
		w.n += int(asInt64(args[1]))
		if w.n < 0 {
			panic(targetPanic{"sync: negative WaitGroup counter"})
		}
		return nil
	}
	h["(*sync.WaitGroup).Done"] = func(fr *frame, args []value) value {
		w := wg(fr, args[0].(*value))
		w.n--
		if w.n < 0 {
			panic(targetPanic{"sync: negative WaitGroup counter"})
		}
		return nil
	}
	h["(*sync.WaitGroup).Wait"] = func(fr *frame, args []value) value {
		w := wg(fr, args[0].(*value))
		fr.i.R.S.Block("waitgroup", func() bool { return w.n == 0 })
		return nil
	}
	h["(*sync.Once).Do"] = func(fr *frame, args []value) value {
		a := args[0].(*value)
		o := fr.i.R.onces[a]
		if o == nil {
			o = &onceSt{}
			fr.i.R.onces[a] = o
		}
		if !o.done {
			o.done = true
			call(fr.i, fr, token.NoPos, args[1], nil)
		}
		return nil
	}
	// atomic.Bool: struct{_ noCopy; v uint32}
	ab := func(a *value) *value { return &(*a).(structure)[1] }
	getB := func(p *value) value {
		if sv, ok := (*p).(symv); ok {
			return sv
		}
		return (*p).(uint32) != 0
	}
	setB := func(p *value, b value) {
		if sv, ok := b.(symv); ok {
			*p = sv
			return
		}
		var v uint32
		if b.(bool) {
			v = 1
		}
		*p = v
	}
	h["(*sync/atomic.Bool).Load"] = func(fr *frame, args []value) value { return getB(ab(args[0].(*value))) }
	h["(*sync/atomic.Bool).Store"] = func(fr *frame, args []value) value { setB(ab(args[0].(*value)), args[1]); return nil }
	h["(*sync/atomic.Bool).Swap"] = func(fr *frame, args []value) value {
		p := ab(args[0].(*value))
		old := getB(p)
		setB(p, args[1])
		return old
	}
	// atomic.Int32/Int64: struct{_ noCopy; (_ align64;) v}
	last := func(a *value) *value { s := (*a).(structure); return &s[len(s)-1] }
	h["(*sync/atomic.Int32).Load"] = func(fr *frame, args []value) value { return *last(args[0].(*value)) }
	h["(*sync/atomic.Int32).Store"] = func(fr *frame, args []value) value { *last(args[0].(*value)) = args[1]; return nil }
	h["(*sync/atomic.Int32).Add"] = func(fr *frame, args []value) value {
		p := last(args[0].(*value))
		*p = (*p).(int32) + args[1].(int32)
		return *p
	}
	h["(*sync/atomic.Int64).Load"] = h["(*sync/atomic.Int32).Load"]
	h["(*sync/atomic.Int64).Store"] = h["(*sync/atomic.Int32).Store"]
	h["(*sync/atomic.Int64).Add"] = func(fr *frame, args []value) value {
		p := last(args[0].(*value))
		*p = (*p).(int64) + args[1].(int64)
		return *p
	}
	// ---- context ----
	h["context.Background"] = func(fr *frame, args []value) value { return fr.i.mkCtx(&vctx{}) }
	h["context.TODO"] = h["context.Background"]
	mkCancel := func(i *interpreter, c *vctx) value {
		return nativeFn(func(fr *frame, args []value) value { c.cancel(i, errCanceled, nil); return nil })
	}
	h["context.WithCancel"] = func(fr *frame, args []value) value {
		c := newCtx(args[0])
		return tuple{fr.i.mkCtx(c), mkCancel(fr.i, c)}
	}
	h["context.WithCancelCause"] = func(fr *frame, args []value) value {
		c := newCtx(args[0])
		i := fr.i
		return tuple{i.mkCtx(c), nativeFn(func(fr *frame, a []value) value {
			cause := a[0]
			if ci, ok := cause.(iface); ok && ci.t == nil {
				cause = nil
			}
			c.cancel(i, errCanceled, cause)
			return nil
		})}
	}
	h["context.WithTimeout"] = func(fr *frame, args []value) value {
		c := newCtx(args[0])
		i := fr.i
		d := fr.i.R.concInt(args[1], "timeout duration")
		c.timer = fr.i.R.S.addTimer(d, func() { c.cancel(i, errDeadline, nil) })
		return tuple{i.mkCtx(c), mkCancel(i, c)}
	}
	h["context.Cause"] = func(fr *frame, args []value) value {
		c := args[0].(iface).v.(*vctx)
		if c.cause == nil {
			return iface{}
		}
		return c.cause
	}
	// ---- time (virtual clock) ----
	h["time.After"] = func(fr *frame, args []value) value {
		ch := &vchan{cap: 1}
		d := fr.i.R.concInt(args[0], "time.After duration")
		fr.i.R.S.addTimer(d, func() { ch.buf = append(ch.buf, zero(fr.i.timeType())) })
		return ch
	}
	// time.Timer{C <-chan Time; ...}: C is field 0; the pending virtual timer is kept in a side table
	h["time.NewTimer"] = func(fr *frame, args []value) value {
		r := fr.i.R
		tt := fr.i.prog.ImportedPackage("time").Type("Timer").Object().Type()
		st := zero(tt).(structure)
		ch := &vchan{cap: 1}
		st[0] = ch
		var cell value = st
		p := &cell
		d := r.concInt(args[0], "timer duration")
		if r.timers == nil {
			r.timers = map[*value]*vtimer{}
		}
		r.timers[p] = r.S.addTimer(d, func() {
			if len(ch.buf) == 0 {
				ch.buf = append(ch.buf, zero(fr.i.timeType()))
			}
		})
		return p
	}
	h["(*time.Timer).Stop"] = func(fr *frame, args []value) value {
		r := fr.i.R
		vt := r.timers[args[0].(*value)]
		if vt == nil {
			return false
		}
		active := !vt.fired && !vt.stopped
		vt.stopped = true
		return active
	}
	h["(*time.Timer).Reset"] = func(fr *frame, args []value) value {
		r := fr.i.R
		p := args[0].(*value)
		vt := r.timers[p]
		active := vt != nil && !vt.fired && !vt.stopped
		if vt != nil {
			vt.stopped = true
		}
		ch := (*p).(structure)[0].(*vchan)
		d := r.concInt(args[1], "timer duration")
		if r.timers == nil {
			r.timers = map[*value]*vtimer{}
		}
		r.timers[p] = r.S.addTimer(d, func() {
			if len(ch.buf) == 0 {
				ch.buf = append(ch.buf, zero(fr.i.timeType()))
			}
		})
		return active
	}
	h["time.AfterFunc"] = func(fr *frame, args []value) value {
		r := fr.i.R
		tt := fr.i.prog.ImportedPackage("time").Type("Timer").Object().Type()
		var cell value = zero(tt)
		p := &cell
		d := r.concInt(args[0], "timer duration")
		fn := args[1]
		i := fr.i
		if r.timers == nil {
			r.timers = map[*value]*vtimer{}
		}
		r.timers[p] = r.S.addTimer(d, func() {
			r.S.spawn("go@AfterFunc", func() { call(i, nil, token.NoPos, fn, nil) })
		})
		return p
	}
	h["time.Sleep"] = func(fr *frame, args []value) value {
		fired := false
		d := fr.i.R.concInt(args[0], "time.Sleep duration")
		fr.i.R.S.addTimer(d, func() { fired = true })
		fr.i.R.S.Block("sleep", func() bool { return fired })
		return nil
	}
	h["time.Now"] = func(fr *frame, args []value) value {
		// Time{wall uint64, ext int64, loc *Location}: ext carries the virtual clock (ns)
		t := zero(fr.i.timeType()).(structure)
		t[1] = int64(fr.i.R.S.Clk)
		return t
	}
	h["time.Since"] = func(fr *frame, args []value) value {
		t := args[0].(structure)
		return int64(fr.i.R.S.Clk) - t[1].(int64)
	}
	h["(time.Time).Sub"] = func(fr *frame, args []value) value {
		return args[0].(structure)[1].(int64) - args[1].(structure)[1].(int64)
	}
	h["(time.Time).IsZero"] = func(fr *frame, args []value) value {
		t := args[0].(structure)
		return t[0].(uint64) == 0 && t[1].(int64) == 0
	}
	h["(time.Time).UnixNano"] = func(fr *frame, args []value) value { return args[0].(structure)[1].(int64) }
	h["(time.Time).Format"] = func(fr *frame, args []value) value { return "T" }
	// ---- errors / fmt ----
	h["errors.Is"] = func(fr *frame, args []value) value {
		t := unwrapErr(args[1])
		if t == nil {
			// interpreted error values: identity comparison along an interpreted Unwrap chain
			cur := args[0]
			for k := 0; k < 16; k++ {
				ci, ok := cur.(iface)
				if !ok || ci.t == nil {
					return false
				}
				ti := args[1].(iface)
				if ti.t != nil && types.Identical(ci.t, ti.t) && equals(ci.t, ci.v, ti.v) {
					return true
				}
				if e, ok := ci.v.(*verr); ok {
					if e.wrap == nil {
						return false
					}
					cur = fr.i.mkErr(e.wrap)
					continue
				}
				return false
			}
			return false
		}
		for e := unwrapErr(args[0]); e != nil; e = e.wrap {
			if e == t {
				return true
			}
		}
		return false
	}
	h["errors.As"] = func(fr *frame, args []value) value {
		// target is *T (T an interface or concrete type implementing error)
		tgt := args[1].(iface)
		pt, ok := tgt.t.Underlying().(*types.Pointer)
		if !ok {
			return false
		}
		cur, ok := args[0].(iface)
		for k := 0; ok && cur.t != nil && k < 16; k++ {
			if types.AssignableTo(cur.t, pt.Elem()) {
				cell := tgt.v.(*value)
				if types.IsInterface(pt.Elem()) {
					*cell = cur
				} else {
					*cell = cur.v
				}
				return true
			}
			e, isv := cur.v.(*verr)
			if !isv || e.wrap == nil {
				return false
			}
			cur = fr.i.mkErr(e.wrap).(iface)
		}
		return false
	}
	h["errors.New"] = func(fr *frame, args []value) value { return fr.i.mkErr(&verr{msg: concStr(args[0])}) }
	h["errors.Unwrap"] = func(fr *frame, args []value) value {
		if e := unwrapErr(args[0]); e != nil && e.wrap != nil {
			return fr.i.mkErr(e.wrap)
		}
		return iface{}
	}
	h["errors.Join"] = func(fr *frame, args []value) value {
		for _, e := range args[0].([]value) {
			if it, ok := e.(iface); ok && it.t != nil {
				return e
			}
		}
		return iface{}
	}
	h["fmt.Errorf"] = func(fr *frame, args []value) value {
		msg := symSprintf(fr, args[0], args[1].([]value))
		e := &verr{msg: concStr(msg)}
		for _, a := range args[1].([]value) {
			if w := unwrapErr(a.(iface).v); w != nil {
				e.wrap = w
			} else if w := unwrapErr(a); w != nil {
				e.wrap = w
			}
		}
		return fr.i.mkErr(e)
	}
	h["fmt.Sprintf"] = func(fr *frame, args []value) value { return symSprintf(fr, args[0], args[1].([]value)) }
	h["fmt.Sprint"] = func(fr *frame, args []value) value {
		var parts []value
		for _, a := range args[0].([]value) {
			parts = append(parts, fmtVerb(fr, 'v', "", a))
		}
		return symConcat(parts)
	}
	h["fmt.Sprintln"] = func(fr *frame, args []value) value {
		var parts []value
		for k, a := range args[0].([]value) {
			if k > 0 {
				parts = append(parts, " ")
			}
			parts = append(parts, fmtVerb(fr, 'v', "", a))
		}
		parts = append(parts, "\n")
		return symConcat(parts)
	}
	for _, n := range []string{"fmt.Printf", "fmt.Println", "fmt.Print", "fmt.Fprintln", "fmt.Fprintf", "fmt.Fprint"} {
		h[n] = func(fr *frame, args []value) value { return tuple{0, iface{}} }
	}
	h["log.Printf"] = func(fr *frame, args []value) value { return nil }
	h["log.Println"] = func(fr *frame, args []value) value { return nil }
	// ---- os / env (defaults; harnesses may rebind) ----
	h["os.Hostname"] = func(fr *frame, args []value) value { return tuple{"host", iface{}} }
	h["os/user.Current"] = func(fr *frame, args []value) value {
		return tuple{zero(fr.fn.Signature.Results().At(0).Type()), fr.i.mkErr(&verr{msg: "nouser"})}
	}
	h["os.Environ"] = func(fr *frame, args []value) value { return valStrings([]string{"HOME=/h"}) }
	h["os.LookupEnv"] = func(fr *frame, args []value) value { return tuple{"", false} }
	h["os.Getenv"] = func(fr *frame, args []value) value { return "" }
	h["os.Stat"] = func(fr *frame, args []value) value {
		fr.i.R.inconclusive("os.Stat reached without a harness stub (verifBind)")
		return nil
	}
	h["os.Getpid"] = func(fr *frame, args []value) value { return 4242 }
	sprintFn := func(fr *frame, args []value) value {
		return nativeFn(func(fr *frame, a []value) value {
			var parts []value
			for _, x := range a[0].([]value) {
				parts = append(parts, fmtVerb(fr, 'v', "", x))
			}
			return symConcat(parts)
		})
	}
	h["(*github.com/fatih/color.Color).SprintFunc"] = sprintFn
	h["(*github.com/fatih/color.Color).SprintfFunc"] = func(fr *frame, args []value) value {
		return nativeFn(func(fr *frame, a []value) value { return symSprintf(fr, a[0], a[1].([]value)) })
	}
	h["github.com/f1bonacc1/process-compose/src/pclog.Name2Color"] = func(fr *frame, args []value) value {
		return nativeFn(func(fr *frame, a []value) value { return "" })
	}
	h["github.com/shirou/gopsutil/v4/process.NewProcess"] = func(fr *frame, args []value) value {
		return tuple{zero(fr.fn.Signature.Results().At(0).Type()), fr.i.mkErr(&verr{msg: "nopid"})}
	}
	h["bufio.NewReader"] = func(fr *frame, args []value) value { return args[0] } // pass the pipe through
	h["(*bufio.Reader).ReadString"] = func(fr *frame, args []value) value {
		return callMethod(fr, args[0].(iface), "ReadString", args[1])
	}
	// ---- json snapshot of exported data (deep copy contract) ----
	h["encoding/json.Marshal"] = func(fr *frame, args []value) value {
		r := fr.i.R
		r.snaps = append(r.snaps, deepCopy(args[0].(iface).v))
		return tuple{valBytes([]byte(fmt.Sprintf("json#%d", len(r.snaps)-1))), iface{}}
	}
	h["encoding/json.Unmarshal"] = func(fr *frame, args []value) value {
		r := fr.i.R
		var id int
		if _, err := fmt.Sscanf(string(goBytes(args[0])), "json#%d", &id); err != nil || id >= len(r.snaps) {
			return fr.i.mkErr(&verr{msg: "bad json"})
		}
		src := r.snaps[id]
		if p, ok := src.(*value); ok {
			src = *p
		}
		dst := args[1].(iface).v.(*value)
		// encoding/json decodes INTO the target: non-nil pointers, maps and slice backing arrays
		// of a target that already holds data are reused, fields json does not see are left alone
		if pt, ok := args[1].(iface).t.Underlying().(*types.Pointer); ok {
			jsonMergeInto(dst, deepCopy(src), pt.Elem())
		} else {
			*dst = deepCopy(src)
		}
		return iface{}
	}
	h["maps.clone"] = func(fr *frame, args []value) value {
		it := args[0].(iface)
		switch m := it.v.(type) {
		case map[value]value:
			if m == nil {
				return it
			}
			n := map[value]value{}
			for k, v := range m {
				n[k] = v
			}
			return iface{t: it.t, v: n}
		}
		panic("maps.clone of " + fmt.Sprintf("%T", it.v))
	}
	h["reflect.DeepEqual"] = func(fr *frame, args []value) value { return deepEqSym(args[0], args[1]) }
	h["runtime.Gosched"] = func(fr *frame, args []value) value { return nil }
	initNatives()
}

// concStr requires a concrete string.
func concStr(v value) string {
	if s, ok := v.(string); ok {
		return s
	}
	if sv, ok := v.(symv); ok {
		return "<sym:" + sv.term + ">"
	}
	return toString(v)
}

// harness-facing intrinsics are matched by name (functions called verif* in module packages)
func harnessIntrinsic(fn *ssa.Function) nativeFn {
	switch fn.Name() {
	case "verifYield":
		return func(fr *frame, args []value) value {
			lab := str(args[len(args)-1])
			fr.i.R.S.Yield(lab)
			return nil
		}
	case "verifEvent":
		return func(fr *frame, args []value) value { fr.i.R.S.Event(concStr(args[0])); return nil }
	case "verifChoose":
		return func(fr *frame, args []value) value {
			r := fr.i.R
			n := int(asInt64(args[len(args)-1]))
			p := r.S.choose("choose", n)
			r.Chooses = append(r.Chooses, p)
			return p
		}
	case "verifChooseK":
		return func(fr *frame, args []value) value {
			r := fr.i.R
			n := int(asInt64(args[1]))
			p := r.S.choose("choose", n)
			if r.ChooseK == nil {
				r.ChooseK = map[string]int{}
			}
			r.ChooseK[concStr(args[0])] = p
			return p
		}
	case "verifLazy":
		return func(fr *frame, args []value) value {
			s := fr.i.R.S
			s.cur.lazy = args[0].(bool)
			if s.cur.lazy {
				s.Yield("lazy")
			}
			return nil
		}
	case "verifQuiesce":
		// block until nothing else can make progress (no runnable thread, no pending timer)
		return func(fr *frame, args []value) value {
			s := fr.i.R.S
			me := s.cur
			me.quiescing = true
			s.Block("quiesce", func() bool {
				for _, t := range s.threads {
					if t == me || t.done || t.quiescing {
						continue
					}
					if t.ready == nil || t.ready() {
						return false
					}
				}
				return !s.pendingTimers()
			})
			me.quiescing = false
			fr.i.R.YieldLog = append(fr.i.R.YieldLog, "@quiesce")
			return nil
		}
	case "verifSettle":
		// block until every other eager (non-lazy) goroutine is blocked; lazy environment
		// goroutines and timers are left pending
		return func(fr *frame, args []value) value {
			s := fr.i.R.S
			me := s.cur
			me.quiescing = true
			me.settling = true
			s.Block("settle", func() bool {
				for _, t := range s.threads {
					if t == me || t.done || t.quiescing || t.lazy {
						continue
					}
					if t.ready == nil || t.ready() {
						return false
					}
				}
				return true
			})
			me.quiescing = false
			me.settling = false
			fr.i.R.YieldLog = append(fr.i.R.YieldLog, "@settle")
			return nil
		}
	case "verifSymbolicMapOrder":
		return func(fr *frame, args []value) value { fr.i.R.MapOrderSymbolic = args[0].(bool); return nil }
	case "verifSymbolicMapOrderIn":
		return func(fr *frame, args []value) value {
			fr.i.R.MapOrderFuncs = append(fr.i.R.MapOrderFuncs, str(args[0]))
			return nil
		}
	case "verifClk":
		return func(fr *frame, args []value) value { return int(fr.i.R.S.Clk) }
	case "verifFail":
		return func(fr *frame, args []value) value {
			site := ""
			if fr.caller != nil {
				site = fr.i.posString(fr.caller.curPos)
			}
			fr.i.R.assertCond(concStr(args[0]), false, site)
			return nil
		}
	case "verifBind":
		return func(fr *frame, args []value) value {
			target := str(args[0])
			fnv := args[1].(iface).v
			fr.i.R.hooks[target] = func(fr2 *frame, a []value) value { return call(fr2.i, fr2, token.NoPos, fnv, a) }
			return nil
		}
	case "verifSetGlobal":
		return func(fr *frame, args []value) value {
			// gives a foreign package-level variable (whose initialiser is not run) a value
			fr.i.setGlobal(str(args[0]), str(args[1]), args[2])
			return nil
		}
	case "verifUnbind":
		return func(fr *frame, args []value) value { delete(fr.i.R.hooks, str(args[0])); return nil }
	case "verifGoroutineName":
		return func(fr *frame, args []value) value { fr.i.R.S.cur.name = str(args[0]); return nil }
	}
	return nil
}

func (i *interpreter) intercept(fn *ssa.Function, args []value) nativeFn {
	if fn.Parent() != nil {
		return nil
	}
	if strings.HasPrefix(fn.Name(), "verif") && fn.Signature.Recv() == nil {
		if h := harnessIntrinsic(fn); h != nil {
			return h
		}
		if h := symIntrinsic(fn.Name()); h != nil {
			return h
		}
	}
	name := fn.String()
	if h, ok := i.R.hooks[name]; ok {
		return h
	}
	if h, ok := Hooks[name]; ok {
		return h
	}
	if nf, ok := natives[name]; ok {
		anySym := false
		for _, a := range args {
			if hasSym(a) {
				anySym = true
				break
			}
		}
		if !anySym {
			return nf.conc
		}
		if anySymstr(args...) && !anySmtStr(args...) {
			if bm, ok := byteModels[name]; ok {
				return bm
			}
		}
		if nf.sym != nil {
			return func(fr *frame, a []value) value { return nf.sym(fr, lowerToSmt(a)) }
		}
		return func(fr *frame, a []value) value {
			fr.i.R.inconclusive("symbolic argument to " + name + " (no symbolic model)")
			return nil
		}
	}
	pkg := ""
	if fn.Pkg != nil {
		pkg = fn.Pkg.Pkg.Path()
	} else if o := fn.Origin(); o != nil && o.Pkg != nil {
		pkg = o.Pkg.Pkg.Path()
	} else if fn.Signature.Recv() != nil {
		// method of foreign type without Pkg (wrappers)
		pkg = recvPkg(fn.Signature.Recv().Type())
	}
	if pkg == "github.com/rs/zerolog" {
		if h := zerologModel(fn); h != nil {
			return h
		}
	}
	if strings.HasPrefix(pkg, "github.com/rs/zerolog") || strings.HasPrefix(pkg, "github.com/fatih/color") {
		return func(fr *frame, args []value) value { return zeroResults(fn) }
	}
	return nil
}

// zerologModel: the part of zerolog's contract that the log-file facade depends on. A Logger
// made by zerolog.New(w) remembers w (slot 0 of the Logger value); Info()/Error()/... on it give
// an Event that remembers w (slot 1); builder methods return their receiver; Msg/Msgf/Send
// write ONE record - the message and a newline - to w with a single Write call. Everything
// else (and every logger without a writer, e.g. the global one) stays a no-op.
func zerologModel(fn *ssa.Function) nativeFn {
	sig := fn.Signature
	name := fn.Name()
	if sig.Recv() == nil {
		if name == "New" {
			return func(fr *frame, args []value) value {
				lg := zeroResults(fn).(structure)
				lg[0] = args[0]
				return lg
			}
		}
		return nil
	}
	recv := sig.Recv().Type()
	rname := ""
	ptr := false
	if p, ok := recv.(*types.Pointer); ok {
		recv = p.Elem()
		ptr = true
	}
	if n, ok := recv.(*types.Named); ok {
		rname = n.Obj().Name()
	}
	loggerOf := func(v value) structure {
		if ptr {
			p, _ := v.(*value)
			if p == nil {
				return nil
			}
			st, _ := (*p).(structure)
			return st
		}
		st, _ := v.(structure)
		return st
	}
	switch rname {
	case "Logger":
		if sig.Results().Len() != 1 {
			return nil
		}
		rt := sig.Results().At(0).Type()
		if rp, ok := rt.(*types.Pointer); ok {
			if n, ok := rp.Elem().(*types.Named); ok && n.Obj().Name() == "Event" {
				return func(fr *frame, args []value) value {
					lg := loggerOf(args[0])
					if lg == nil {
						return zeroResults(fn)
					}
					w, _ := lg[0].(iface)
					if w.t == nil {
						return zeroResults(fn)
					}
					ev := zero(rp.Elem()).(structure)
					ev[1] = w
					var cell value = ev
					return &cell
				}
			}
		}
		if n, ok := rt.(*types.Named); ok && n.Obj().Name() == "Context" {
			// With(): the context carries a copy of the logger
			return func(fr *frame, args []value) value {
				c := zeroResults(fn).(structure)
				if lg := loggerOf(args[0]); lg != nil {
					c[0] = append(structure{}, lg...)
				}
				return c
			}
		}
		if n, ok := rt.(*types.Named); ok && n.Obj().Name() == "Logger" {
			return func(fr *frame, args []value) value {
				if lg := loggerOf(args[0]); lg != nil {
					return append(structure{}, lg...)
				}
				return zeroResults(fn)
			}
		}
	case "Context":
		if sig.Results().Len() == 1 {
			if n, ok := sig.Results().At(0).Type().(*types.Named); ok {
				switch n.Obj().Name() {
				case "Context":
					return func(fr *frame, args []value) value { return args[0] }
				case "Logger":
					return func(fr *frame, args []value) value {
						if c, ok := args[0].(structure); ok {
							if lg, ok := c[0].(structure); ok {
								return append(structure{}, lg...)
							}
						}
						return zeroResults(fn)
					}
				}
			}
		}
	case "Event":
		if !ptr {
			return nil
		}
		switch name {
		case "Msg", "Msgf", "Send":
			return func(fr *frame, args []value) value {
				p, _ := args[0].(*value)
				if p == nil {
					return nil
				}
				ev, _ := (*p).(structure)
				if ev == nil {
					return nil
				}
				w, _ := ev[1].(iface)
				if w.t == nil {
					return nil
				}
				var rec []value
				if name != "Send" {
					switch m := args[1].(type) {
					case string:
						for k := 0; k < len(m); k++ {
							rec = append(rec, m[k])
						}
					case symstr:
						rec = append(rec, m.b...)
					}
				}
				rec = append(rec, byte('\n'))
				wr := fr.i.prog.LookupMethod(w.t, nil, "Write")
				if wr == nil {
					fr.i.R.inconclusive("zerolog model: the logger's writer has no Write method")
					return nil
				}
				call(fr.i, fr, token.NoPos, wr, []value{w.v, rec})
				return nil
			}
		}
		if sig.Results().Len() == 1 {
			if rp, ok := sig.Results().At(0).Type().(*types.Pointer); ok {
				if n, ok := rp.Elem().(*types.Named); ok && n.Obj().Name() == "Event" {
					return func(fr *frame, args []value) value { return args[0] }
				}
			}
		}
	}
	return nil
}

// hasSym reports whether a (shallow) argument value is or directly contains a symbolic scalar.
func hasSym(v value) bool {
	switch x := v.(type) {
	case symv, symstr:
		return true
	case *absSlice:
		return true
	case []value:
		for _, e := range x {
			if isSymAny(e) {
				return true
			}
		}
	case iface:
		return isSymAny(x.v)
	}
	return false
}

func recvPkg(t types.Type) string {
	if p, ok := t.(*types.Pointer); ok {
		t = p.Elem()
	}
	if n, ok := t.(*types.Named); ok && n.Obj().Pkg() != nil {
		return n.Obj().Pkg().Path()
	}
	return ""
}

func deepCopy(v value) value {
	switch v := v.(type) {
	case structure:
		n := make(structure, len(v))
		for i := range v {
			n[i] = deepCopy(v[i])
		}
		return n
	case array:
		n := make(array, len(v))
		for i := range v {
			n[i] = deepCopy(v[i])
		}
		return n
	case []value:
		if v == nil {
			return v
		}
		n := make([]value, len(v))
		for i := range v {
			n[i] = deepCopy(v[i])
		}
		return n
	case map[value]value:
		if v == nil {
			return v
		}
		n := map[value]value{}
		for k, x := range v {
			n[k] = deepCopy(x)
		}
		return n
	case *value:
		if v == nil {
			return v
		}
		c := deepCopy(*v)
		return &c
	case iface:
		return iface{t: v.t, v: deepCopy(v.v)}
	}
	return v
}

// jsonMergeInto mirrors how encoding/json.Unmarshal stores a decoded document (src, a private deep
// copy of what Marshal saw, of static type t) into an existing value: struct fields one by one
// (unexported and `json:"-"` fields untouched, `omitempty` zero values absent from the document),
// a non-nil pointer keeps its pointee, a non-nil map is kept and gets the keys added (each element
// decoded into a fresh zero value), a slice keeps its backing array while it is large enough and
// merges into the stale elements, null (nil pointer/map/slice) resets the target.
func jsonMergeInto(dst *value, src value, t types.Type) {
	if n, ok := t.(*types.Named); ok {
		ms := types.NewMethodSet(types.NewPointer(n))
		for i := 0; i < ms.Len(); i++ {
			if nm := ms.At(i).Obj().Name(); nm == "UnmarshalJSON" || nm == "UnmarshalText" {
				*dst = src
				return
			}
		}
	}
	switch u := t.Underlying().(type) {
	case *types.Struct:
		ds, ok1 := (*dst).(structure)
		ss, ok2 := src.(structure)
		if !ok1 || !ok2 || len(ds) != len(ss) || len(ss) != u.NumFields() {
			*dst = src
			return
		}
		for i := 0; i < u.NumFields(); i++ {
			f := u.Field(i)
			if !f.Exported() {
				continue
			}
			tag := reflect.StructTag(u.Tag(i)).Get("json")
			if tag == "-" {
				continue
			}
			if strings.Contains(tag, ",omitempty") && jsonIsEmpty(ss[i]) {
				continue
			}
			jsonMergeInto(&ds[i], ss[i], f.Type())
		}
	case *types.Pointer:
		sp, ok := src.(*value)
		if !ok || sp == nil {
			*dst = src
			return
		}
		dp, ok := (*dst).(*value)
		if !ok || dp == nil {
			nv := zero(u.Elem())
			dp = &nv
			*dst = dp
		}
		jsonMergeInto(dp, *sp, u.Elem())
	case *types.Map:
		sm, ok := src.(map[value]value)
		if !ok || sm == nil {
			*dst = src
			return
		}
		dm, ok := (*dst).(map[value]value)
		if !ok || dm == nil {
			dm = map[value]value{}
			*dst = dm
		}
		for k, v := range sm {
			e := zero(u.Elem())
			jsonMergeInto(&e, v, u.Elem())
			dm[k] = e
		}
	case *types.Slice:
		sl, ok := src.([]value)
		if b, isb := u.Elem().Underlying().(*types.Basic); !ok || sl == nil || (isb && b.Kind() == types.Uint8) {
			*dst = src
			return
		}
		d, _ := (*dst).([]value)
		for i := range sl {
			if i >= cap(d) {
				nd := make([]value, len(d), 2*cap(d)+1)
				copy(nd, d)
				d = nd
			}
			if i >= len(d) {
				d = d[:i+1]
				if d[i] == nil {
					d[i] = zero(u.Elem())
				}
			}
			jsonMergeInto(&d[i], sl[i], u.Elem())
		}
		if len(sl) == 0 {
			d = []value{}
		} else {
			d = d[:len(sl)]
		}
		*dst = d
	default:
		*dst = src
	}
}

func jsonIsEmpty(v value) bool {
	switch x := v.(type) {
	case bool:
		return !x
	case string:
		return x == ""
	case int:
		return x == 0
	case int64:
		return x == 0
	case []value:
		return len(x) == 0
	case map[value]value:
		return len(x) == 0
	case *value:
		return x == nil
	case iface:
		return x.t == nil
	}
	return false
}

// deepEqSym is reflect.DeepEqual over interpreter values; symbolic leaves yield a Bool term.
func deepEqSym(a, b value) value {
	conj := []string{}
	ok := deepEq(a, b, &conj)
	if !ok {
		return false
	}
	if len(conj) == 0 {
		return true
	}
	if len(conj) == 1 {
		return symv{'b', conj[0]}
	}
	return symv{'b', "(and " + strings.Join(conj, " ") + ")"}
}

func deepEq(a, b value, conj *[]string) bool {
	if isSymstr(a) || isSymstr(b) {
		x, ok1 := strBytes(a)
		y, ok2 := strBytes(b)
		if !ok1 || !ok2 {
			return deepEq(lowerToSmt([]value{a})[0], lowerToSmt([]value{b})[0], conj)
		}
		switch e := symstrEq(x, y).(type) {
		case bool:
			return e
		case symv:
			*conj = append(*conj, e.term)
			return true
		}
	}
	if isSym(a) || isSym(b) {
		ta, ka := toTerm(a)
		tb, kb := toTerm(b)
		if ka != kb {
			return false
		}
		*conj = append(*conj, "(= "+ta+" "+tb+")")
		return true
	}
	switch x := a.(type) {
	case iface:
		y, ok := b.(iface)
		if !ok {
			return false
		}
		if x.t == nil || y.t == nil {
			return x.t == nil && y.t == nil
		}
		if !types.Identical(x.t, y.t) {
			return false
		}
		return deepEq(x.v, y.v, conj)
	case structure:
		y, ok := b.(structure)
		if !ok || len(x) != len(y) {
			return false
		}
		for i := range x {
			if !deepEq(x[i], y[i], conj) {
				return false
			}
		}
		return true
	case array:
		y, ok := b.(array)
		if !ok || len(x) != len(y) {
			return false
		}
		for i := range x {
			if !deepEq(x[i], y[i], conj) {
				return false
			}
		}
		return true
	case []value:
		y, ok := b.([]value)
		if !ok || (x == nil) != (y == nil) || len(x) != len(y) {
			return false
		}
		for i := range x {
			if !deepEq(x[i], y[i], conj) {
				return false
			}
		}
		return true
	case map[value]value:
		y, ok := b.(map[value]value)
		if !ok || (x == nil) != (y == nil) || len(x) != len(y) {
			return false
		}
		for k, v := range x {
			w, ok := y[k]
			if !ok || !deepEq(v, w, conj) {
				return false
			}
		}
		return true
	case *value:
		y, ok := b.(*value)
		if !ok {
			return false
		}
		if x == nil || y == nil {
			return x == y
		}
		return x == y || deepEq(*x, *y, conj)
	case *ssa.Function:
		y, ok := b.(*ssa.Function)
		return ok && x == nil && y == nil
	case *closure:
		return false
	}
	return a == b
}
