package interp

import (
	"bufio"
	"fmt"
	"io"
	"os/exec"
	"strconv"
	"strings"
	"time"
)

// Solver is one persistent SMT solver process (z3 -in by default), owned by one worker.
type Solver struct {
	Bin     []string
	cmd     *exec.Cmd
	in      io.WriteCloser
	out     *bufio.Reader
	Queries int
	Sat     int
	Unsat   int
	Unknown int
	Errors  int
	Time    time.Duration
	Log     io.Writer // optional transcript
	dead    bool
}

func NewSolver(bin ...string) *Solver {
	if len(bin) == 0 {
		bin = []string{"z3", "-in"}
	}
	s := &Solver{Bin: bin}
	s.start()
	return s
}

func (s *Solver) start() {
	cmd := exec.Command(s.Bin[0], s.Bin[1:]...)
	in, _ := cmd.StdinPipe()
	outp, _ := cmd.StdoutPipe()
	if err := cmd.Start(); err != nil {
		panic("cannot start solver: " + err.Error())
	}
	s.cmd, s.in, s.out = cmd, in, bufio.NewReader(outp)
	s.dead = false
}

func (s *Solver) Close() {
	if s.cmd != nil {
		s.in.Close()
		s.cmd.Process.Kill()
		s.cmd.Wait()
	}
}

func (s *Solver) Send(cmds string) {
	if s.Log != nil {
		io.WriteString(s.Log, cmds+"\n")
	}
	if _, err := io.WriteString(s.in, cmds+"\n"); err != nil {
		s.dead = true
	}
}

// readSexp reads one complete answer: an atom line or a balanced s-expression
// (which may span lines; string literals may contain parentheses).
func (s *Solver) readSexp() string {
	var sb strings.Builder
	depth := 0
	inStr := false
	started := false
	for {
		l, err := s.out.ReadString('\n')
		if err != nil {
			s.dead = true
			return "(error \"solver died\")"
		}
		for i := 0; i < len(l); i++ {
			c := l[i]
			if inStr {
				if c == '"' {
					inStr = false
				}
				continue
			}
			switch c {
			case '"':
				inStr = true
			case '(':
				depth++
			case ')':
				depth--
			}
		}
		t := strings.TrimSpace(l)
		if t == "" && !started {
			continue
		}
		started = true
		sb.WriteString(l)
		if depth <= 0 && !inStr {
			break
		}
	}
	r := strings.TrimSpace(sb.String())
	if s.Log != nil {
		io.WriteString(s.Log, "; -> "+r+"\n")
	}
	return r
}

func (s *Solver) Reset(timeoutMs int) {
	if s.dead {
		s.Close()
		s.start()
	}
	s.Send("(reset)")
	if timeoutMs > 0 && strings.Contains(s.Bin[0], "z3") {
		s.Send(fmt.Sprintf("(set-option :timeout %d)", timeoutMs))
	}
}

// Check decides satisfiability of the asserted path condition plus `extra` (may be "").
// Returns "sat"/"unsat"/"unknown"; with wantModel the values of the named constants.
func (s *Solver) Check(extra string, wantModel []string) (string, map[string]string) {
	t0 := time.Now()
	s.Queries++
	s.Send("(push)")
	if extra != "" {
		s.Send("(assert " + extra + ")")
	}
	s.Send("(check-sat)")
	res := s.readSexp()
	var model map[string]string
	if res == "sat" && len(wantModel) > 0 {
		model = map[string]string{}
		for _, v := range wantModel {
			s.Send("(get-value (" + v + "))")
			l := s.readSexp()
			if strings.HasPrefix(l, "(error") {
				continue
			}
			model[v] = lastSexp(l)
		}
	}
	s.Send("(pop)")
	s.Time += time.Since(t0)
	switch {
	case res == "sat":
		s.Sat++
	case res == "unsat":
		s.Unsat++
	case strings.HasPrefix(res, "(error"):
		s.Errors++
		// drain: nothing more is pending; treat as inconclusive
		return "unknown", nil
	default:
		s.Unknown++
		res = "unknown"
	}
	return res, model
}

// ---- model value decoding (SMT-LIB -> Go) ----

func DecodeBV(v string) (int64, bool) {
	v = strings.TrimSpace(v)
	if strings.HasPrefix(v, "#x") {
		u, err := strconv.ParseUint(v[2:], 16, 64)
		return int64(u), err == nil
	}
	if strings.HasPrefix(v, "#b") {
		u, err := strconv.ParseUint(v[2:], 2, 64)
		return int64(u), err == nil
	}
	if strings.HasPrefix(v, "(_ bv") {
		f := strings.Fields(strings.Trim(v, "()"))
		if len(f) >= 2 {
			u, err := strconv.ParseUint(strings.TrimPrefix(f[1], "bv"), 10, 64)
			return int64(u), err == nil
		}
	}
	return 0, false
}

func DecodeString(v string) (string, bool) {
	v = strings.TrimSpace(v)
	if len(v) < 2 || v[0] != '"' || v[len(v)-1] != '"' {
		return "", false
	}
	v = v[1 : len(v)-1]
	v = strings.ReplaceAll(v, `""`, `"`)
	var sb strings.Builder
	for i := 0; i < len(v); {
		if strings.HasPrefix(v[i:], `\u{`) {
			j := strings.IndexByte(v[i:], '}')
			if j > 0 {
				n, err := strconv.ParseUint(v[i+3:i+j], 16, 32)
				if err == nil {
					if n < 256 {
						sb.WriteByte(byte(n))
					} else {
						sb.WriteRune(rune(n))
					}
					i += j + 1
					continue
				}
			}
		}
		if strings.HasPrefix(v[i:], `\x`) && i+4 <= len(v) {
			n, err := strconv.ParseUint(v[i+2:i+4], 16, 8)
			if err == nil {
				sb.WriteByte(byte(n))
				i += 4
				continue
			}
		}
		sb.WriteByte(v[i])
		i++
	}
	return sb.String(), true
}

// smtString renders a Go string as an SMT-LIB string literal.
func smtString(s string) string {
	var sb strings.Builder
	sb.WriteByte('"')
	for i := 0; i < len(s); i++ {
		c := s[i]
		switch {
		case c == '"':
			sb.WriteString(`""`)
		case c == '\\' || c < 0x20 || c > 0x7e:
			fmt.Fprintf(&sb, `\u{%x}`, c)
		default:
			sb.WriteByte(c)
		}
	}
	sb.WriteByte('"')
	return sb.String()
}

// lastSexp extracts the value from a "((term value))" answer: the last top-level
// s-expression inside the inner pair.
func lastSexp(ans string) string {
	a := strings.TrimSpace(ans)
	if strings.HasPrefix(a, "((") && strings.HasSuffix(a, "))") {
		a = a[2 : len(a)-2]
	}
	a = strings.TrimSpace(a)
	// scan from the end for the start of the last s-expression
	if len(a) == 0 {
		return a
	}
	end := len(a)
	switch a[end-1] {
	case '"':
		// string literal: find its opening quote (quotes inside are doubled)
		i := end - 2
		for i >= 0 {
			if a[i] == '"' {
				if i > 0 && a[i-1] == '"' {
					i -= 2
					continue
				}
				break
			}
			i--
		}
		if i < 0 {
			return a
		}
		return a[i:]
	case ')':
		depth := 0
		inStr := false
		for i := end - 1; i >= 0; i-- {
			c := a[i]
			if c == '"' {
				inStr = !inStr
			}
			if inStr {
				continue
			}
			if c == ')' {
				depth++
			} else if c == '(' {
				depth--
				if depth == 0 {
					return a[i:]
				}
			}
		}
		return a
	default:
		i := strings.LastIndexAny(a, " \t\n")
		return a[i+1:]
	}
}
