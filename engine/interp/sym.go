package interp

import (
	"fmt"
	"go/token"
	"go/types"
	"strings"
)

// ---- symbolic scalars ----
//
// symv is a symbolic scalar: k='i' a 64-bit bit-vector holding the canonical (sign- or
// zero-extended) representation of a Go integer of any width, k='b' a Bool, k='s' a String.

type symv struct {
	k    byte
	term string
}

// absSlice is a slice over an abstract backing store: only offset/len/cap are tracked
// (possibly symbolic); elements are uninterpreted.
type absSlice struct {
	name          string
	off, len, cap value // int or symv
	elemT         types.Type
}

func (r *Run) declare(name string, k byte) symv {
	name = r.fresh(name)
	sort := "(_ BitVec 64)"
	if k == 'b' {
		sort = "Bool"
	} else if k == 's' {
		sort = "String"
	}
	r.Decls = append(r.Decls, Decl{Name: name, Kind: k})
	r.Z.Send(fmt.Sprintf("(declare-const %s %s)", smtSym(name), sort))
	return symv{k, smtSym(name)}
}

func smtSym(name string) string {
	for i := 0; i < len(name); i++ {
		c := name[i]
		if !(c >= 'a' && c <= 'z' || c >= 'A' && c <= 'Z' || c >= '0' && c <= '9' || c == '_' || c == '.' || c == '!') {
			return "|" + name + "|"
		}
	}
	return name
}

func (r *Run) addPC(c string) {
	r.PC = append(r.PC, c)
	r.Z.Send("(assert " + c + ")")
}

func bvlit(n int64) string { return fmt.Sprintf("#x%016x", uint64(n)) }

func toTerm(v value) (string, byte) {
	switch v := v.(type) {
	case symv:
		return v.term, v.k
	case bool:
		if v {
			return "true", 'b'
		}
		return "false", 'b'
	case string:
		return smtString(v), 's'
	case symstr:
		return smtOfSymstr(v), 's'
	case uint, uint8, uint16, uint32, uint64, uintptr:
		return bvlit(int64(asUint64(v))), 'i'
	default:
		return bvlit(asInt64(v)), 'i'
	}
}

func isSym(v value) bool { _, ok := v.(symv); return ok }

func isSymAny(v value) bool {
	switch v.(type) {
	case symv, symstr:
		return true
	}
	return false
}

// intInfo returns bit width and signedness of a Go integer type (0 when not an integer).
func intInfo(t types.Type) (width int, signed bool) {
	bt, ok := t.Underlying().(*types.Basic)
	if !ok {
		return 0, false
	}
	switch bt.Kind() {
	case types.Int, types.Int64, types.UntypedInt:
		return 64, true
	case types.Int32, types.UntypedRune:
		return 32, true
	case types.Int16:
		return 16, true
	case types.Int8:
		return 8, true
	case types.Uint, types.Uint64, types.Uintptr:
		return 64, false
	case types.Uint32:
		return 32, false
	case types.Uint16:
		return 16, false
	case types.Uint8:
		return 8, false
	}
	return 0, false
}

// normInt re-establishes the canonical 64-bit representation after arithmetic on a
// narrower type.
func normInt(term string, width int, signed bool) string {
	if width == 64 || width == 0 {
		return term
	}
	ext := "zero_extend"
	if signed {
		ext = "sign_extend"
	}
	return fmt.Sprintf("((_ %s %d) ((_ extract %d 0) %s))", ext, 64-width, width-1, term)
}

func symNot(t string) string { return "(not " + t + ")" }

func symBinop(op token.Token, t types.Type, x, y value) value {
	a, ka := toTerm(x)
	b, kb := toTerm(y)
	if ka != kb {
		// shifts may mix; everything else must agree
		if !(op == token.SHL || op == token.SHR) {
			panic(fmt.Sprintf("symBinop: kind mismatch %c %c for %s", ka, kb, op))
		}
	}
	width, signed := intInfo(t)
	f := func(name string) value {
		return symv{'i', normInt("("+name+" "+a+" "+b+")", width, signed)}
	}
	p := func(name string) value { return symv{'b', "(" + name + " " + a + " " + b + ")"} }
	switch ka {
	case 's':
		switch op {
		case token.ADD:
			return symv{'s', "(str.++ " + a + " " + b + ")"}
		case token.EQL:
			return p("=")
		case token.NEQ:
			return symv{'b', "(not (= " + a + " " + b + "))"}
		case token.LSS:
			return p("str.<")
		case token.LEQ:
			return p("str.<=")
		case token.GTR:
			return symv{'b', "(str.< " + b + " " + a + ")"}
		case token.GEQ:
			return symv{'b', "(str.<= " + b + " " + a + ")"}
		}
	case 'b':
		switch op {
		case token.EQL:
			return p("=")
		case token.NEQ:
			return symv{'b', "(not (= " + a + " " + b + "))"}
		case token.AND, token.LAND:
			return p("and")
		case token.OR, token.LOR:
			return p("or")
		}
	case 'i':
		switch op {
		case token.ADD:
			return f("bvadd")
		case token.SUB:
			return f("bvsub")
		case token.MUL:
			return f("bvmul")
		case token.AND:
			return f("bvand")
		case token.OR:
			return f("bvor")
		case token.XOR:
			return f("bvxor")
		case token.AND_NOT:
			return symv{'i', normInt("(bvand "+a+" (bvnot "+b+"))", width, signed)}
		case token.QUO:
			if signed {
				return f("bvsdiv")
			}
			return f("bvudiv")
		case token.REM:
			if signed {
				return f("bvsrem")
			}
			return f("bvurem")
		case token.SHL:
			return f("bvshl")
		case token.SHR:
			if signed {
				return f("bvashr")
			}
			return f("bvlshr")
		case token.EQL:
			return p("=")
		case token.NEQ:
			return symv{'b', "(not (= " + a + " " + b + "))"}
		case token.LSS:
			if !signed {
				return p("bvult")
			}
			return p("bvslt")
		case token.LEQ:
			if !signed {
				return p("bvule")
			}
			return p("bvsle")
		case token.GTR:
			if !signed {
				return p("bvugt")
			}
			return p("bvsgt")
		case token.GEQ:
			if !signed {
				return p("bvuge")
			}
			return p("bvsge")
		}
	}
	panic(fmt.Sprintf("symBinop: unsupported %s on %c", op, ka))
}

// symConv converts a symbolic scalar between Go types.
func symConv(tdst, tsrc types.Type, x symv) value {
	switch x.k {
	case 'i':
		if wd, sd := intInfo(tdst); wd != 0 {
			ws, _ := intInfo(tsrc)
			if wd >= ws && ws != 0 {
				// widening (or same width): canonical form of the source already is the value,
				// except same-width sign change which keeps the bits.
				if wd == ws {
					return x
				}
				// e.g. int32 -> uint64: sign-extended bits are the Go result; uint32 -> int64: zero-extended. ok.
				return x
			}
			return symv{'i', normInt(x.term, wd, sd)}
		}
		if bt, ok := tdst.Underlying().(*types.Basic); ok && bt.Info()&types.IsString != 0 {
			panic("symConv: int->string of symbolic value")
		}
	case 's':
		if bt, ok := tdst.Underlying().(*types.Basic); ok && bt.Info()&types.IsString != 0 {
			return x
		}
	case 'b':
		return x
	}
	panic(fmt.Sprintf("symConv: unsupported %s -> %s", tsrc, tdst))
}

// ---- branching ----

// feasible asks the solver for both sides of a condition.
func (r *Run) sides(c string) (t, f bool) {
	rt, _ := r.Z.Check(c, nil)
	if rt == "unknown" {
		r.inconclusive("solver unknown on branch condition")
	}
	if rt == "unsat" {
		return false, true // pc is satisfiable by invariant, so the other side holds
	}
	rf, _ := r.Z.Check("(not "+c+")", nil)
	if rf == "unknown" {
		r.inconclusive("solver unknown on branch condition")
	}
	return true, rf == "sat"
}

// branch decides a symbolic condition; a choice point with alternatives {true,false}
// of which only the feasible ones are explored.
func (r *Run) branch(c symv) bool {
	s := r.S
	var pick bool
	if len(s.Trace) < len(s.prefix) {
		// replaying: feasibility was established when this choice point was discovered
		p := s.prefix[len(s.Trace)]
		s.Trace = append(s.Trace, ChoicePoint{Kind: "br", N: 2, Pick: p, Replayed: true})
		pick = p == 0
	} else {
		r.Forks++
		t, f := r.sides(c.term)
		switch {
		case t && f:
			s.Trace = append(s.Trace, ChoicePoint{Kind: "br", N: 2, Pick: 0})
			pick = true
		case t:
			s.Trace = append(s.Trace, ChoicePoint{Kind: "br", N: 2, Pick: 0, Forced: true})
			return true // implied by the path condition
		case f:
			s.Trace = append(s.Trace, ChoicePoint{Kind: "br", N: 2, Pick: 1, Forced: true})
			return false
		default:
			r.inconclusive("path condition unsatisfiable at branch")
		}
	}
	if pick {
		r.addPC(c.term)
	} else {
		r.addPC("(not " + c.term + ")")
	}
	return pick
}

// concretize forks over the feasible values of a symbolic int (at most max of them).
func (r *Run) concretize(x symv, max int, what string) int64 {
	s := r.S
	if len(s.Trace) < len(s.prefix) {
		cp := s.prefix[len(s.Trace)]
		// the value list has to be recomputed deterministically
		vals := r.feasibleValues(x, max, what)
		if cp >= len(vals) {
			panic(fmt.Sprintf("replay divergence in concretize: %d of %d", cp, len(vals)))
		}
		s.Trace = append(s.Trace, ChoicePoint{Kind: "conc", N: len(vals), Pick: cp, Replayed: true})
		r.addPC("(= " + x.term + " " + bvlit(vals[cp]) + ")")
		return vals[cp]
	}
	vals := r.feasibleValues(x, max, what)
	if len(vals) == 0 {
		r.inconclusive("no feasible value in concretize")
	}
	s.Trace = append(s.Trace, ChoicePoint{Kind: "conc", N: len(vals), Pick: 0})
	r.addPC("(= " + x.term + " " + bvlit(vals[0]) + ")")
	return vals[0]
}

func (r *Run) feasibleValues(x symv, max int, what string) []int64 {
	var vals []int64
	r.Z.Send("(push)")
	r.Z.Send("(declare-const conc!v (_ BitVec 64))")
	r.Z.Send("(assert (= conc!v " + x.term + "))")
	for {
		st, m := r.Z.Check("", []string{"conc!v"})
		if st == "unknown" {
			r.Z.Send("(pop)")
			r.inconclusive("solver unknown while concretising " + what)
		}
		if st != "sat" {
			break
		}
		v, ok := DecodeBV(m["conc!v"])
		if !ok {
			r.Z.Send("(pop)")
			r.inconclusive("cannot decode model value " + m["conc!v"])
		}
		vals = append(vals, v)
		if len(vals) > max {
			r.Z.Send("(pop)")
			r.inconclusive(fmt.Sprintf("more than %d feasible values for %s: bound the variable in the harness", max, what))
		}
		r.Z.Send("(assert (not (= conc!v " + bvlit(v) + ")))")
	}
	r.Z.Send("(pop)")
	// deterministic order
	for i := range vals {
		for j := i + 1; j < len(vals); j++ {
			if vals[j] < vals[i] {
				vals[i], vals[j] = vals[j], vals[i]
			}
		}
	}
	return vals
}

// concretizeStr forks a symbolic string over a set of candidate constants plus "other".
// Returns the concrete string, or ok=false for the "none of them" alternative.
func (r *Run) concretizeStr(x symv, cands []string) (string, bool) {
	for _, c := range cands {
		if r.branch(symv{'b', "(= " + x.term + " " + smtString(c) + ")"}) {
			return c, true
		}
	}
	return "", false
}

func (r *Run) symSlice(x *absSlice, lo, hi value) value {
	if lo == nil {
		lo = 0
	}
	if hi == nil {
		hi = x.len
	}
	l, _ := toTerm(lo)
	h, _ := toTerm(hi)
	c, _ := toTerm(x.cap)
	ok := symv{'b', fmt.Sprintf("(and (bvsle #x0000000000000000 %s) (bvsle %s %s) (bvsle %s %s))", l, l, h, h, c)}
	if !r.branch(ok) {
		panic(targetPanic{"runtime error: slice bounds out of range"})
	}
	o, _ := toTerm(x.off)
	return &absSlice{name: x.name, elemT: x.elemT,
		off: symv{'i', "(bvadd " + o + " " + l + ")"},
		len: symv{'i', "(bvsub " + h + " " + l + ")"},
		cap: symv{'i', "(bvsub " + c + " " + l + ")"}}
}

// fillModel attaches a model of the current path condition to a violation.
func (r *Run) fillModel(v *Violation) {
	v.Choose = append([]int{}, r.Chooses...)
	v.ChooseK = map[string]int{}
	for k, x := range r.ChooseK {
		v.ChooseK[k] = x
	}
	v.Yields = append([]string{}, r.YieldLog...)
	v.Events = append([]string{}, r.S.Events...)
	v.Trace = append([]ChoicePoint{}, r.S.Trace...)
	if len(r.Decls) == 0 || v.Model != nil {
		return
	}
	st, m := r.Z.Check("", declNames2(r.Decls))
	if st == "sat" {
		v.Model = packModel(r.Decls, m)
	}
}

func declNames2(ds []Decl) []string {
	var r []string
	for _, d := range ds {
		if d.Kind == 'S' {
			for k := 0; k < d.Len; k++ {
				r = append(r, smtSym(fmt.Sprintf("%s.b%d", d.Name, k)))
			}
			continue
		}
		r = append(r, smtSym(d.Name))
	}
	return r
}

// packModel folds the byte variables of byte-vector strings into one string literal each.
func packModel(ds []Decl, m map[string]string) map[string]string {
	if m == nil {
		return nil
	}
	out := map[string]string{}
	for _, d := range ds {
		if d.Kind == 'S' {
			bs := make([]byte, d.Len)
			for k := 0; k < d.Len; k++ {
				n, _ := DecodeBV(m[smtSym(fmt.Sprintf("%s.b%d", d.Name, k))])
				bs[k] = byte(n)
			}
			out[smtSym(d.Name)] = smtString(string(bs))
			continue
		}
		out[smtSym(d.Name)] = m[smtSym(d.Name)]
	}
	return out
}

func (r *Run) lastSite() string {
	return r.I.posString(r.lastModPos)
}

// ---- harness-facing symbolic intrinsics ----

func boolTerm(v value) string {
	t, k := toTerm(v)
	if k != 'b' {
		panic("boolean expected")
	}
	return t
}

func (r *Run) assertCond(label string, c value, site string) {
	r.Asserts++
	switch c := c.(type) {
	case bool:
		if !c {
			v := Violation{Label: label, Kind: "assert", Site: site, Shape: strings.Join(r.Shapes, ",")}
			r.fillModel(&v)
			r.Violations = append(r.Violations, v)
		}
	case symv:
		st, m := r.Z.Check("(not "+c.term+")", declNames2(r.Decls))
		switch st {
		case "sat":
			v := Violation{Label: label, Kind: "assert", Site: site, Shape: strings.Join(r.Shapes, ","), Model: packModel(r.Decls, m)}
			r.fillModel(&v)
			r.Violations = append(r.Violations, v)
			// continue on the side where the assertion holds, if any
			if st2, _ := r.Z.Check(c.term, nil); st2 == "sat" {
				r.addPC(c.term)
			} else {
				r.S.Outcome = "violated"
				r.S.abortAll()
				panic(abortRun{"assert always fails"})
			}
		case "unsat":
		default:
			r.inconclusive("solver unknown on assertion " + label)
		}
	}
}

func symIntrinsic(name string) nativeFn {
	switch name {
	case "verifInt":
		return func(fr *frame, args []value) value { return fr.i.R.declare(str(args[0]), 'i') }
	case "verifIntRange":
		return func(fr *frame, args []value) value {
			r := fr.i.R
			v := r.declare(str(args[0]), 'i')
			r.addPC(fmt.Sprintf("(and (bvsle %s %s) (bvsle %s %s))", bvlit(asInt64(args[1])), v.term, v.term, bvlit(asInt64(args[2]))))
			return v
		}
	case "verifBool":
		return func(fr *frame, args []value) value { return fr.i.R.declare(str(args[0]), 'b') }
	case "verifStr":
		return func(fr *frame, args []value) value {
			r := fr.i.R
			v := r.declare(str(args[0]), 's')
			r.addPC(fmt.Sprintf("(<= (str.len %s) %d)", v.term, asInt64(args[1])))
			r.addPC(fmt.Sprintf("(str.in_re %s (re.* (re.range \" \" \"~\")))", v.term))
			return v
		}
	case "verifStrAny":
		return func(fr *frame, args []value) value {
			r := fr.i.R
			v := r.declare(str(args[0]), 's')
			r.addPC(fmt.Sprintf("(<= (str.len %s) %d)", v.term, asInt64(args[1])))
			return v
		}
	case "verifStrB":
		return func(fr *frame, args []value) value {
			return fr.i.R.declareBytes(str(args[0]), int(asInt64(args[1])), str(args[2]))
		}
	case "verifAbstractStrings":
		return func(fr *frame, args []value) value {
			r := fr.i.R
			r.absCtr++
			return &absSlice{name: fmt.Sprintf("%s#%d", str(args[0]), r.absCtr), off: 0, len: args[1], cap: args[2]}
		}
	case "verifSliceStart":
		return func(fr *frame, args []value) value {
			if s, ok := args[0].(*absSlice); ok {
				return s.off
			}
			return -1
		}
	case "verifSliceStore":
		return func(fr *frame, args []value) value {
			if s, ok := args[0].(*absSlice); ok {
				return s.name
			}
			return ""
		}
	case "verifAssume":
		return func(fr *frame, args []value) value {
			r := fr.i.R
			switch c := args[0].(type) {
			case bool:
				if !c {
					r.S.Outcome = "assume-false"
					r.S.abortAll()
					panic(abortRun{"assume"})
				}
			case symv:
				r.addPC(c.term)
				st, _ := r.Z.Check("", nil)
				if st == "unknown" {
					r.inconclusive("solver unknown after assume")
				}
				if st != "sat" {
					r.S.Outcome = "assume-false"
					r.S.abortAll()
					panic(abortRun{"assume"})
				}
			}
			return nil
		}
	case "verifAssert":
		return func(fr *frame, args []value) value {
			site := ""
			if fr.caller != nil {
				site = fr.i.posString(fr.caller.curPos)
			}
			fr.i.R.assertCond(str(args[0]), args[1], site)
			return nil
		}
	case "verifReach":
		return func(fr *frame, args []value) value { fr.i.R.Reached[str(args[0])] = true; return nil }
	case "verifShape":
		return func(fr *frame, args []value) value {
			fr.i.R.Shapes = append(fr.i.R.Shapes, str(args[0]))
			return nil
		}
	case "verifObserveInt", "verifObserveStr", "verifObserveBool":
		return func(fr *frame, args []value) value {
			r := fr.i.R
			t, _ := toTerm(args[1])
			r.Observes = append(r.Observes, str(args[0])+"="+t)
			return nil
		}
	case "verifAnd":
		return func(fr *frame, args []value) value { return mkBool2("and", args[0], args[1]) }
	case "verifOr":
		return func(fr *frame, args []value) value { return mkBool2("or", args[0], args[1]) }
	case "verifImplies":
		return func(fr *frame, args []value) value { return mkBool2("=>", args[0], args[1]) }
	case "verifNot":
		return func(fr *frame, args []value) value {
			if b, ok := args[0].(bool); ok {
				return !b
			}
			return symv{'b', "(not " + boolTerm(args[0]) + ")"}
		}
	case "verifIteInt":
		return func(fr *frame, args []value) value {
			if b, ok := args[0].(bool); ok {
				if b {
					return args[1]
				}
				return args[2]
			}
			a, _ := toTerm(args[1])
			b, _ := toTerm(args[2])
			return symv{'i', "(ite " + boolTerm(args[0]) + " " + a + " " + b + ")"}
		}
	case "verifIteStr":
		return func(fr *frame, args []value) value {
			if b, ok := args[0].(bool); ok {
				if b {
					return args[1]
				}
				return args[2]
			}
			a, _ := toTerm(args[1])
			b, _ := toTerm(args[2])
			return symv{'s', "(ite " + boolTerm(args[0]) + " " + a + " " + b + ")"}
		}
	case "verifConcretize":
		return func(fr *frame, args []value) value {
			if sv, ok := args[0].(symv); ok {
				return int(fr.i.R.concretize(sv, 64, "verifConcretize"))
			}
			return args[0]
		}
	case "verifNative":
		return func(fr *frame, args []value) value { return false }
	case "verifUnwind":
		return func(fr *frame, args []value) value { fr.i.R.Unwind = int(asInt64(args[0])); return nil }
	}
	return nil
}

func mkBool2(op string, a, b value) value {
	ab, aok := a.(bool)
	bb, bok := b.(bool)
	if aok && bok {
		switch op {
		case "and":
			return ab && bb
		case "or":
			return ab || bb
		default:
			return !ab || bb
		}
	}
	return symv{'b', "(" + op + " " + boolTerm(a) + " " + boolTerm(b) + ")"}
}
