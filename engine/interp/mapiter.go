package interp

// engine-controlled map iteration: sorted snapshot of keys; the next key is a choice
// point when MapOrderSymbolic is on. Keys deleted meanwhile are skipped (Go semantics);
// keys added during iteration are not visited (one of the behaviours the spec allows).

type chooseIter struct {
	r    *Run
	sym  bool
	m    map[value]value
	keys []value
}

func (it *chooseIter) next() tuple {
	for len(it.keys) > 0 {
		idx := 0
		if it.sym && len(it.keys) > 1 {
			idx = it.r.S.choose("maporder", len(it.keys))
		}
		k := it.keys[idx]
		it.keys = append(append([]value{}, it.keys[:idx]...), it.keys[idx+1:]...)
		v, ok := it.m[k]
		if !ok {
			continue
		}
		return []value{true, k, v}
	}
	return []value{false, nil, nil}
}
