package interp

import (
	"fmt"
	"math"
	"os"
	"path/filepath"
	"sort"
	"strconv"
	"strings"
	"text/template"
	"unicode"
)

// natives: pure foreign functions executed natively on concrete arguments, with an optional
// symbolic model used when an argument is symbolic.
type native struct {
	conc nativeFn
	sym  nativeFn
}

var natives = map[string]native{}

func errOrNil(fr *frame, err error) value {
	if err == nil {
		return iface{}
	}
	if os.IsNotExist(err) {
		return fr.i.mkErr(&verr{msg: err.Error(), wrap: errNotExist})
	}
	return fr.i.mkErr(&verr{msg: err.Error()})
}

func initNatives() {
	n := natives
	ss_b := func(f func(a, b string) bool) nativeFn {
		return func(fr *frame, a []value) value { return f(str(a[0]), str(a[1])) }
	}
	ss_s := func(f func(a, b string) string) nativeFn {
		return func(fr *frame, a []value) value { return f(str(a[0]), str(a[1])) }
	}
	s_s := func(f func(a string) string) nativeFn {
		return func(fr *frame, a []value) value { return f(str(a[0])) }
	}
	ss_i := func(f func(a, b string) int) nativeFn {
		return func(fr *frame, a []value) value { return f(str(a[0]), str(a[1])) }
	}
	t2 := func(a, b value) (string, string) {
		x, _ := toTerm(a)
		y, _ := toTerm(b)
		return x, y
	}
	n["strings.Contains"] = native{ss_b(strings.Contains), func(fr *frame, a []value) value {
		x, y := t2(a[0], a[1])
		return symv{'b', "(str.contains " + x + " " + y + ")"}
	}}
	n["strings.HasPrefix"] = native{ss_b(strings.HasPrefix), func(fr *frame, a []value) value {
		x, y := t2(a[0], a[1])
		return symv{'b', "(str.prefixof " + y + " " + x + ")"}
	}}
	n["strings.HasSuffix"] = native{ss_b(strings.HasSuffix), func(fr *frame, a []value) value {
		x, y := t2(a[0], a[1])
		return symv{'b', "(str.suffixof " + y + " " + x + ")"}
	}}
	n["strings.EqualFold"] = native{ss_b(strings.EqualFold), nil}
	n["strings.TrimSuffix"] = native{ss_s(strings.TrimSuffix), func(fr *frame, a []value) value {
		x, y := t2(a[0], a[1])
		return symv{'s', fmt.Sprintf("(ite (str.suffixof %s %s) (str.substr %s 0 (- (str.len %s) (str.len %s))) %s)", y, x, x, x, y, x)}
	}}
	n["strings.TrimPrefix"] = native{ss_s(strings.TrimPrefix), func(fr *frame, a []value) value {
		x, y := t2(a[0], a[1])
		return symv{'s', fmt.Sprintf("(ite (str.prefixof %s %s) (str.substr %s (str.len %s) (- (str.len %s) (str.len %s))) %s)", y, x, x, y, x, y, x)}
	}}
	n["strings.Trim"] = native{ss_s(strings.Trim), nil}
	n["strings.TrimLeft"] = native{ss_s(strings.TrimLeft), nil}
	n["strings.TrimRight"] = native{ss_s(strings.TrimRight), nil}
	n["strings.TrimSpace"] = native{s_s(strings.TrimSpace), symTrimSpace}
	n["strings.ToLower"] = native{s_s(strings.ToLower), nil}
	n["strings.ToUpper"] = native{s_s(strings.ToUpper), nil}
	n["strings.Title"] = native{s_s(strings.Title), nil}
	n["strings.Index"] = native{ss_i(strings.Index), func(fr *frame, a []value) value {
		x, y := t2(a[0], a[1])
		return symv{'i', "((_ int2bv 64) (str.indexof " + x + " " + y + " 0))"}
	}}
	n["strings.LastIndex"] = native{ss_i(strings.LastIndex), nil}
	n["strings.Count"] = native{ss_i(strings.Count), nil}
	n["strings.IndexByte"] = native{func(fr *frame, a []value) value { return strings.IndexByte(str(a[0]), a[1].(byte)) }, nil}
	n["strings.ContainsRune"] = native{func(fr *frame, a []value) value { return strings.ContainsRune(str(a[0]), a[1].(rune)) }, nil}
	n["strings.ContainsAny"] = native{ss_b(strings.ContainsAny), nil}
	n["strings.Repeat"] = native{func(fr *frame, a []value) value { return strings.Repeat(str(a[0]), int(asInt64(a[1]))) }, nil}
	n["strings.Fields"] = native{func(fr *frame, a []value) value { return valStrings(strings.Fields(str(a[0]))) }, nil}
	n["strings.Split"] = native{func(fr *frame, a []value) value { return valStrings(strings.Split(str(a[0]), str(a[1]))) },
		func(fr *frame, a []value) value { return symSplit(fr, a[0], a[1], -1) }}
	n["strings.SplitN"] = native{func(fr *frame, a []value) value {
		return valStrings(strings.SplitN(str(a[0]), str(a[1]), int(asInt64(a[2]))))
	}, func(fr *frame, a []value) value { return symSplit(fr, a[0], a[1], int(fr.i.R.concInt(a[2], "SplitN n"))) }}
	n["strings.Join"] = native{func(fr *frame, a []value) value { return strings.Join(goStrings(a[0]), str(a[1])) },
		func(fr *frame, a []value) value {
			var parts []value
			for k, e := range a[0].([]value) {
				if k > 0 {
					parts = append(parts, a[1])
				}
				parts = append(parts, e)
			}
			return symConcat(parts)
		}}
	n["strings.Replace"] = native{func(fr *frame, a []value) value {
		return strings.Replace(str(a[0]), str(a[1]), str(a[2]), int(asInt64(a[3])))
	}, func(fr *frame, a []value) value {
		k := int(fr.i.R.concInt(a[3], "Replace n"))
		return symReplace(fr, a[0], a[1], a[2], k)
	}}
	n["strings.ReplaceAll"] = native{func(fr *frame, a []value) value {
		return strings.ReplaceAll(str(a[0]), str(a[1]), str(a[2]))
	}, func(fr *frame, a []value) value { return symReplace(fr, a[0], a[1], a[2], -1) }}
	n["strings.Compare"] = native{ss_i(strings.Compare), nil}

	n["strconv.Itoa"] = native{func(fr *frame, a []value) value { return strconv.Itoa(int(asInt64(a[0]))) },
		func(fr *frame, a []value) value { return fr.i.R.itoaBytes(a[0].(symv), 0) }}
	n["strconv.Atoi"] = native{func(fr *frame, a []value) value {
		v, err := strconv.Atoi(str(a[0]))
		if err != nil {
			return tuple{0, fr.i.mkErr(&verr{msg: err.Error(), wrap: errSyntax})}
		}
		return tuple{v, iface{}}
	}, symAtoi}
	n["strconv.Quote"] = native{s_s(strconv.Quote), func(fr *frame, a []value) value {
		// exact for strings without characters that need escaping (asserted by a fork)
		x, _ := toTerm(a[0])
		safe := symv{'b', "(str.in_re " + x + " (re.* (re.union (re.range \" \" \"!\") (re.range \"#\" \"[\") (re.range \"]\" \"~\"))))"}
		if !fr.i.R.branch(safe) {
			fr.i.R.inconclusive("strconv.Quote of a symbolic string containing quote/backslash")
		}
		return symv{'s', "(str.++ \"\"\"\" " + x + " \"\"\"\")"}
	}}
	n["strconv.FormatInt"] = native{func(fr *frame, a []value) value { return strconv.FormatInt(asInt64(a[0]), int(asInt64(a[1]))) }, nil}
	n["strconv.FormatBool"] = native{func(fr *frame, a []value) value { return strconv.FormatBool(a[0].(bool)) }, nil}
	n["strconv.ParseBool"] = native{func(fr *frame, a []value) value {
		v, err := strconv.ParseBool(str(a[0]))
		return tuple{v, errOrNil(fr, err)}
	}, nil}
	n["strconv.ParseInt"] = native{func(fr *frame, a []value) value {
		v, err := strconv.ParseInt(str(a[0]), int(asInt64(a[1])), int(asInt64(a[2])))
		return tuple{v, errOrNil(fr, err)}
	}, nil}

	n["path/filepath.Join"] = native{func(fr *frame, a []value) value { return filepath.Join(goStrings(a[0])...) }, nil}
	n["path/filepath.IsAbs"] = native{func(fr *frame, a []value) value { return filepath.IsAbs(str(a[0])) },
		func(fr *frame, a []value) value {
			x, _ := toTerm(a[0])
			return symv{'b', "(str.prefixof \"/\" " + x + ")"}
		}}
	n["path/filepath.Dir"] = native{s_s(filepath.Dir), nil}
	n["path/filepath.Base"] = native{s_s(filepath.Base), nil}
	n["path/filepath.Clean"] = native{s_s(filepath.Clean), nil}
	n["path/filepath.Ext"] = native{s_s(filepath.Ext), nil}
	n["path/filepath.Abs"] = native{func(fr *frame, a []value) value {
		p := str(a[0])
		if !filepath.IsAbs(p) {
			p = filepath.Join("/cwd", p)
		}
		return tuple{filepath.Clean(p), iface{}}
	}, nil}
	n["os.Getwd"] = native{func(fr *frame, a []value) value { return tuple{"/cwd", iface{}} }, nil}
	n["sort.Strings"] = native{func(fr *frame, a []value) value {
		vs := a[0].([]value)
		sort.Slice(vs, func(i, j int) bool { return vs[i].(string) < vs[j].(string) })
		return nil
	}, nil}
	n["sort.Ints"] = native{func(fr *frame, a []value) value {
		vs := a[0].([]value)
		sort.Slice(vs, func(i, j int) bool { return vs[i].(int) < vs[j].(int) })
		return nil
	}, nil}
	n["math.Log10"] = native{func(fr *frame, a []value) value { return math.Log10(a[0].(float64)) }, nil}
	n["math.Floor"] = native{func(fr *frame, a []value) value { return math.Floor(a[0].(float64)) }, nil}
	n["math.Ceil"] = native{func(fr *frame, a []value) value { return math.Ceil(a[0].(float64)) }, nil}
	n["math.Pow"] = native{func(fr *frame, a []value) value { return math.Pow(a[0].(float64), a[1].(float64)) }, nil}
	n["math.Trunc"] = native{func(fr *frame, a []value) value { return math.Trunc(a[0].(float64)) }, nil}
	n["unicode.IsSpace"] = native{func(fr *frame, a []value) value { return unicode.IsSpace(a[0].(rune)) }, nil}
	n["unicode.IsDigit"] = native{func(fr *frame, a []value) value { return unicode.IsDigit(a[0].(rune)) }, nil}
	n["unicode.IsLetter"] = native{func(fr *frame, a []value) value { return unicode.IsLetter(a[0].(rune)) }, nil}
	n["unicode.IsUpper"] = native{func(fr *frame, a []value) value { return unicode.IsUpper(a[0].(rune)) }, nil}
	n["unicode.ToLower"] = native{func(fr *frame, a []value) value { return unicode.ToLower(a[0].(rune)) }, nil}
	n["unicode.ToUpper"] = native{func(fr *frame, a []value) value { return unicode.ToUpper(a[0].(rune)) }, nil}

	// ---- text/template executed natively on concrete data ----
	Hooks["text/template.New"] = func(fr *frame, args []value) value { return &vtpl{} }
	Hooks["(*text/template.Template).Parse"] = func(fr *frame, args []value) value {
		t := args[0].(*vtpl)
		if isSym(args[1]) {
			fr.i.R.inconclusive("template text is symbolic")
		}
		tt, err := template.New("").Parse(str(args[1]))
		if err != nil {
			return tuple{t, fr.i.mkErr(&verr{msg: err.Error()})}
		}
		t.t = tt
		return tuple{t, iface{}}
	}
	Hooks["(*text/template.Template).Execute"] = func(fr *frame, args []value) value {
		t := args[0].(*vtpl)
		data := map[string]any{}
		if m, ok := args[2].(iface).v.(map[value]value); ok {
			for k, v := range m {
				if iv, ok := v.(iface); ok {
					v = iv.v
				}
				if isSym(v) {
					fr.i.R.inconclusive("template variable is symbolic")
				}
				data[k.(string)] = v
			}
		}
		var sb strings.Builder
		if err := t.t.Execute(&sb, data); err != nil {
			return fr.i.mkErr(&verr{msg: err.Error()})
		}
		callMethod(fr, args[1].(iface), "Write", valBytes([]byte(sb.String())))
		return iface{}
	}
}

type vtpl struct{ t *template.Template }

// ---- symbolic string helpers ----

func symConcat(parts []value) value {
	allConc := true
	smt := false
	for _, p := range parts {
		if isSymAny(p) {
			allConc = false
		}
		if isSym(p) {
			smt = true
		}
	}
	if !allConc && !smt {
		var out []value
		for _, p := range parts {
			b, _ := strBytes(p)
			out = append(out, b...)
		}
		return mkStr(out)
	}
	if allConc {
		var sb strings.Builder
		for _, p := range parts {
			sb.WriteString(p.(string))
		}
		return sb.String()
	}
	if len(parts) == 1 {
		return parts[0]
	}
	var ts []string
	for _, p := range parts {
		t, _ := toTerm(p)
		ts = append(ts, t)
	}
	return symv{'s', "(str.++ " + strings.Join(ts, " ") + ")"}
}

// signed integer value of a 64-bit bit-vector term as an SMT Int
func bvToInt(t string) string {
	return fmt.Sprintf("(ite (bvslt %s %s) (- (bv2nat %s) 18446744073709551616) (bv2nat %s))", t, bvlit(0), t, t)
}

func symItoa(x symv) value {
	return symv{'s', fmt.Sprintf("(ite (bvslt %s %s) (str.++ \"-\" (str.from_int (- %s))) (str.from_int (bv2nat %s)))",
		x.term, bvlit(0), bvToInt(x.term), x.term)}
}

// symAtoi: fork {syntax error, value}. Accepts an optional sign followed by digits
// (the documented Atoi grammar for base 10, without underscores); range errors are not
// modelled for strings longer than 18 digits (callers bound the length).
func symAtoi(fr *frame, a []value) value {
	r := fr.i.R
	x := a[0].(symv)
	digits := "(re.+ (re.range \"0\" \"9\"))"
	isNum := symv{'b', fmt.Sprintf("(str.in_re %s (re.++ (re.opt (re.union (str.to_re \"-\") (str.to_re \"+\"))) %s))", x.term, digits)}
	if !r.branch(isNum) {
		return tuple{0, fr.i.mkErr(&verr{msg: "strconv.Atoi: parsing: invalid syntax", wrap: errSyntax})}
	}
	body := fmt.Sprintf("(ite (or (str.prefixof \"-\" %[1]s) (str.prefixof \"+\" %[1]s)) (str.substr %[1]s 1 (- (str.len %[1]s) 1)) %[1]s)", x.term)
	if !r.branch(symv{'b', "(<= (str.len " + body + ") 18)"}) {
		r.inconclusive("Atoi of a symbolic string longer than 18 digits is not modelled")
	}
	mag := "((_ int2bv 64) (str.to_int " + body + "))"
	v := symv{'i', fmt.Sprintf("(ite (str.prefixof \"-\" %s) (bvneg %s) %s)", x.term, mag, mag)}
	return tuple{v, iface{}}
}

// symSplit models strings.Split/SplitN(s, sep, n) for non-empty sep: forks on the number
// of separators; terminates because the string length is bounded.
func symSplit(fr *frame, s, sep value, n int) value {
	r := fr.i.R
	st, _ := toTerm(s)
	pt, _ := toTerm(sep)
	if c, ok := sep.(string); ok && c == "" {
		r.inconclusive("Split with empty separator on symbolic string")
	}
	if n == 0 {
		return []value(nil)
	}
	var out []value
	rest := st
	for k := 0; ; k++ {
		if n > 0 && len(out) == n-1 {
			break
		}
		if k > 12 {
			r.inconclusive("Split: more than 12 separators")
		}
		has := symv{'b', "(str.contains " + rest + " " + pt + ")"}
		if !r.branch(has) {
			break
		}
		// name the index to keep terms small
		idx := r.declare("splitidx", 'i')
		r.addPC(fmt.Sprintf("(= (bv2nat %s) (str.indexof %s %s 0))", idx.term, rest, pt))
		piece := r.declare("splitpiece", 's')
		r.addPC(fmt.Sprintf("(= %s (str.substr %s 0 (bv2nat %s)))", piece.term, rest, idx.term))
		nrest := r.declare("splitrest", 's')
		r.addPC(fmt.Sprintf("(= %s (str.substr %s (+ (bv2nat %s) (str.len %s)) (str.len %s)))", nrest.term, rest, idx.term, pt, rest))
		out = append(out, piece)
		rest = nrest.term
	}
	out = append(out, symv{'s', rest})
	return out
}

// symReplace models strings.Replace(s, old, new, n) (n<0: all) for non-empty old.
func symReplace(fr *frame, s, old, new value, n int) value {
	parts := symSplit(fr, s, old, func() int {
		if n < 0 {
			return -1
		}
		return n + 1
	}()).([]value)
	var j []value
	for k, p := range parts {
		if k > 0 {
			j = append(j, new)
		}
		j = append(j, p)
	}
	return symConcat(j)
}

// symTrimSpace: the result r is characterised without forking: s = a ++ r ++ b with a, b
// white space only and r neither starting nor ending with white space (unique solution).
func symTrimSpace(fr *frame, a []value) value {
	r := fr.i.R
	s, _ := toTerm(a[0])
	ws := "(re.union (str.to_re \" \") (str.to_re \"\\u{9}\") (str.to_re \"\\u{a}\") (str.to_re \"\\u{d}\") (str.to_re \"\\u{b}\") (str.to_re \"\\u{c}\"))"
	pre := r.declare("trim.pre", 's')
	res := r.declare("trim.res", 's')
	suf := r.declare("trim.suf", 's')
	r.addPC(fmt.Sprintf("(= %s (str.++ %s %s %s))", s, pre.term, res.term, suf.term))
	r.addPC(fmt.Sprintf("(str.in_re %s (re.* %s))", pre.term, ws))
	r.addPC(fmt.Sprintf("(str.in_re %s (re.* %s))", suf.term, ws))
	r.addPC(fmt.Sprintf("(not (str.in_re %s (re.++ %s re.all)))", res.term, ws))
	r.addPC(fmt.Sprintf("(not (str.in_re %s (re.++ re.all %s)))", res.term, ws))
	return res
}

// ---- fmt ----

// fmtVerb renders one operand (an iface from the ...any slice) under a verb.
func fmtVerb(fr *frame, verb byte, flags string, a value) value {
	it, ok := a.(iface)
	var v value = a
	if ok {
		v = it.v
		if it.t == nil {
			return "<nil>"
		}
	}
	switch x := v.(type) {
	case symstr:
		if verb == 'q' {
			return byteModels["strconv.Quote"](fr, []value{x})
		}
		return x
	case symv:
		switch x.k {
		case 's':
			if verb == 'q' {
				return natives["strconv.Quote"].sym(fr, []value{x})
			}
			return x
		case 'i':
			w := 0
			if flags != "" {
				var err error
				w, err = strconv.Atoi(strings.TrimPrefix(flags, "0"))
				if !strings.HasPrefix(flags, "0") || err != nil || w > 18 {
					fr.i.R.inconclusive("fmt flags " + flags + " on symbolic integer")
				}
			}
			return fr.i.R.itoaBytes(x, w)
		case 'b':
			return symv{'s', "(ite " + x.term + " \"true\" \"false\")"}
		}
	case string:
		if verb == 'q' {
			return strconv.Quote(x)
		}
		if verb == 'd' {
			return "%!d(string=" + x + ")"
		}
		if flags != "" {
			return fmt.Sprintf("%"+flags+"s", x)
		}
		return x
	case bool:
		return strconv.FormatBool(x)
	case int, int8, int16, int32, int64:
		if verb == 'c' {
			return string(rune(asInt64(x)))
		}
		return fmt.Sprintf("%"+flags+"d", asInt64(x))
	case uint, uint8, uint16, uint32, uint64, uintptr:
		return fmt.Sprintf("%"+flags+"d", asUint64(x))
	case float32, float64:
		if verb == 'v' || verb == 's' {
			return fmt.Sprintf("%"+flags+"v", x)
		}
		return fmt.Sprintf("%"+flags+string(verb), x)
	case *verr:
		return x.msg
	}
	if ok && it.t != nil {
		// error / Stringer implemented by interpreted code
		ms := fr.i.prog.MethodSets.MethodSet(it.t)
		for k := 0; k < ms.Len(); k++ {
			nm := ms.At(k).Obj().Name()
			if nm == "Error" || nm == "String" {
				if sig := ms.At(k).Type(); sig != nil {
					return callMethod(fr, it, nm)
				}
			}
		}
	}
	return toString(v)
}

// symSprintf implements the fmt verbs used by the code under test.
func symSprintf(fr *frame, format value, args []value) value {
	f, ok := format.(string)
	if !ok {
		fr.i.R.inconclusive("symbolic format string")
	}
	var parts []value
	ai := 0
	next := func() value {
		if ai < len(args) {
			ai++
			return args[ai-1]
		}
		return "%!(MISSING)"
	}
	for i := 0; i < len(f); {
		c := f[i]
		if c != '%' {
			j := strings.IndexByte(f[i:], '%')
			if j < 0 {
				j = len(f) - i
			}
			parts = append(parts, f[i:i+j])
			i += j
			continue
		}
		i++
		if i >= len(f) {
			parts = append(parts, "%!(NOVERB)")
			break
		}
		flags := ""
		for i < len(f) && strings.IndexByte("+-# 0123456789.*", f[i]) >= 0 {
			if f[i] == '*' {
				w := next()
				if wi, ok := w.(iface); ok {
					w = wi.v
				}
				if isSym(w) {
					w = int(fr.i.R.concretize(w.(symv), 8, "fmt width"))
				}
				flags += strconv.Itoa(int(asInt64(w)))
			} else {
				flags += string(f[i])
			}
			i++
		}
		if i >= len(f) {
			break
		}
		verb := f[i]
		i++
		if verb == '%' {
			parts = append(parts, "%")
			continue
		}
		if verb == 'w' {
			verb = 'v'
		}
		parts = append(parts, fmtVerb(fr, verb, flags, next()))
	}
	return symConcat(parts)
}
