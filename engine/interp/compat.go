package interp

import "go/types"

type tp struct{}

var typeparams tp

func (tp) MustDeref(t types.Type) types.Type {
	if p, ok := t.Underlying().(*types.Pointer); ok {
		return p.Elem()
	}
	panic("not a pointer: " + t.String())
}
