package interp

import (
	"fmt"
	"go/token"
	"strings"
)

// symstr is a string of concrete length whose bytes may be symbolic (each element is a
// byte or a symv{'i'} holding a zero-extended byte). This is the "concrete size, symbolic
// content" representation: all reasoning about it is bit-vector reasoning, no string theory.
type symstr struct{ b []value }

// mkStr normalises a byte vector: all-concrete vectors become Go strings.
func mkStr(b []value) value {
	for _, e := range b {
		if isSym(e) {
			return symstr{b}
		}
	}
	bs := make([]byte, len(b))
	for i, e := range b {
		bs[i] = e.(byte)
	}
	return string(bs)
}

func strBytes(v value) ([]value, bool) {
	switch x := v.(type) {
	case symstr:
		return x.b, true
	case string:
		r := make([]value, len(x))
		for i := 0; i < len(x); i++ {
			r[i] = x[i]
		}
		return r, true
	}
	return nil, false
}

func isSymstr(v value) bool { _, ok := v.(symstr); return ok }

func byteTerm(v value) string {
	if sv, ok := v.(symv); ok {
		return sv.term
	}
	return bvlit(int64(v.(byte)))
}

// smtOfSymstr renders a symstr as an SMT String term.
func smtOfSymstr(s symstr) string {
	if len(s.b) == 0 {
		return "\"\""
	}
	var parts []string
	for _, e := range s.b {
		if sv, ok := e.(symv); ok {
			parts = append(parts, "(str.from_code (bv2nat "+sv.term+"))")
		} else {
			parts = append(parts, smtString(string([]byte{e.(byte)})))
		}
	}
	if len(parts) == 1 {
		return parts[0]
	}
	return "(str.++ " + strings.Join(parts, " ") + ")"
}

func andTerms(ts []string) value {
	var keep []string
	for _, t := range ts {
		if t == "false" {
			return false
		}
		if t != "true" {
			keep = append(keep, t)
		}
	}
	switch len(keep) {
	case 0:
		return true
	case 1:
		return symv{'b', keep[0]}
	}
	return symv{'b', "(and " + strings.Join(keep, " ") + ")"}
}

func orTerms(ts []string) value {
	var keep []string
	for _, t := range ts {
		if t == "true" {
			return true
		}
		if t != "false" {
			keep = append(keep, t)
		}
	}
	switch len(keep) {
	case 0:
		return false
	case 1:
		return symv{'b', keep[0]}
	}
	return symv{'b', "(or " + strings.Join(keep, " ") + ")"}
}

func byteEq(a, b value) string {
	if !isSym(a) && !isSym(b) {
		if a.(byte) == b.(byte) {
			return "true"
		}
		return "false"
	}
	return "(= " + byteTerm(a) + " " + byteTerm(b) + ")"
}

// bytesEqAt: term for a[i:i+len(b)] == b
func bytesEqAt(a []value, i int, b []value) string {
	if i < 0 || i+len(b) > len(a) {
		return "false"
	}
	var ts []string
	for k := range b {
		ts = append(ts, byteEq(a[i+k], b[k]))
	}
	v := andTerms(ts)
	t, _ := toTerm(v)
	return t
}

func symstrEq(a, b []value) value {
	if len(a) != len(b) {
		return false
	}
	var ts []string
	for k := range a {
		ts = append(ts, byteEq(a[k], b[k]))
	}
	return andTerms(ts)
}

func symstrLess(a, b []value, orEq bool) value {
	// lexicographic: built from the end
	var res string
	if len(a) < len(b) || (orEq && len(a) == len(b)) {
		res = "true"
	} else {
		res = "false"
	}
	n := len(a)
	if len(b) < n {
		n = len(b)
	}
	for k := n - 1; k >= 0; k-- {
		x, y := byteTerm(a[k]), byteTerm(b[k])
		res = fmt.Sprintf("(ite (bvult %s %s) true (ite (bvult %s %s) false %s))", x, y, y, x, res)
	}
	if res == "true" {
		return true
	}
	if res == "false" {
		return false
	}
	return symv{'b', res}
}

func notVal(v value) value {
	if b, ok := v.(bool); ok {
		return !b
	}
	return symv{'b', "(not " + v.(symv).term + ")"}
}

// symstrBinop handles binary operators where at least one operand is a symstr.
func symstrBinop(op token.Token, x, y value) value {
	// mixing with SMT strings: lower to the string theory
	if sx, ok := x.(symv); ok && sx.k == 's' {
		return symBinop(op, nil, x, symv{'s', smtOfSymstr(y.(symstr))})
	}
	if sy, ok := y.(symv); ok && sy.k == 's' {
		return symBinop(op, nil, symv{'s', smtOfSymstr(x.(symstr))}, y)
	}
	a, _ := strBytes(x)
	b, _ := strBytes(y)
	switch op {
	case token.ADD:
		return mkStr(append(append([]value{}, a...), b...))
	case token.EQL:
		return symstrEq(a, b)
	case token.NEQ:
		return notVal(symstrEq(a, b))
	case token.LSS:
		return symstrLess(a, b, false)
	case token.LEQ:
		return symstrLess(a, b, true)
	case token.GTR:
		return symstrLess(b, a, false)
	case token.GEQ:
		return symstrLess(b, a, true)
	}
	panic("symstrBinop: unsupported " + op.String())
}

// declareBytes creates a string of every length 0..maxLen (a choice point) with fresh
// symbolic bytes restricted to `alphabet` (empty: printable ASCII 0x20..0x7e).
func (r *Run) declareBytes(name string, maxLen int, alphabet string) value {
	name = r.fresh(name)
	n := 0
	if maxLen > 0 {
		n = r.S.choose("strlen", maxLen+1)
	}
	r.Decls = append(r.Decls, Decl{Name: name, Kind: 'S', Len: n})
	b := make([]value, n)
	for k := 0; k < n; k++ {
		vn := smtSym(fmt.Sprintf("%s.b%d", name, k))
		r.Z.Send(fmt.Sprintf("(declare-const %s (_ BitVec 64))", vn))
		if alphabet == "" {
			r.addPC(fmt.Sprintf("(and (bvule %s %s) (bvule %s %s))", bvlit(0x20), vn, vn, bvlit(0x7e)))
		} else {
			var ds []string
			for i := 0; i < len(alphabet); i++ {
				ds = append(ds, "(= "+vn+" "+bvlit(int64(alphabet[i]))+")")
			}
			if len(ds) == 1 {
				r.addPC(ds[0])
			} else {
				r.addPC("(or " + strings.Join(ds, " ") + ")")
			}
		}
		b[k] = symv{'i', vn}
	}
	return mkStr(b)
}

// byteIsOneOf: term for "byte is one of set"
func byteIsOneOf(b value, set string) string {
	if !isSym(b) {
		if strings.IndexByte(set, b.(byte)) >= 0 {
			return "true"
		}
		return "false"
	}
	var ds []string
	for i := 0; i < len(set); i++ {
		ds = append(ds, "(= "+byteTerm(b)+" "+bvlit(int64(set[i]))+")")
	}
	return "(or " + strings.Join(ds, " ") + ")"
}

// decide turns a Bool value (concrete or term) into a concrete bool, forking if needed.
func (r *Run) decide(v value) bool {
	if b, ok := v.(bool); ok {
		return b
	}
	return r.branch(v.(symv))
}

func termVal(t string) value {
	switch t {
	case "true":
		return true
	case "false":
		return false
	}
	return symv{'b', t}
}

// ---- byte-level models of string functions ----

const asciiSpaceSet = " \t\n\v\f\r"

func (r *Run) bsTrimSpace(s []value) value {
	lo, hi := 0, len(s)
	for lo < hi && r.decide(termVal(byteIsOneOf(s[lo], asciiSpaceSet))) {
		lo++
	}
	for hi > lo && r.decide(termVal(byteIsOneOf(s[hi-1], asciiSpaceSet))) {
		hi--
	}
	return mkStr(s[lo:hi])
}

func bsContains(s, sub []value) value {
	if len(sub) == 0 {
		return true
	}
	var ts []string
	for i := 0; i+len(sub) <= len(s); i++ {
		ts = append(ts, bytesEqAt(s, i, sub))
	}
	return orTerms(ts)
}

// bsIndex forks on the first match position.
func (r *Run) bsIndex(s, sub []value, from int) int {
	for i := from; i+len(sub) <= len(s); i++ {
		if r.decide(termVal(bytesEqAt(s, i, sub))) {
			return i
		}
	}
	return -1
}

func (r *Run) bsSplit(s, sep []value, n int) value {
	if len(sep) == 0 {
		r.inconclusive("Split with empty separator on symbolic string")
	}
	if n == 0 {
		return []value(nil)
	}
	var out []value
	pos := 0
	for {
		if n > 0 && len(out) == n-1 {
			break
		}
		i := r.bsIndex(s, sep, pos)
		if i < 0 {
			break
		}
		out = append(out, mkStr(s[pos:i]))
		pos = i + len(sep)
	}
	out = append(out, mkStr(s[pos:]))
	return out
}

func (r *Run) bsReplace(s, old, new []value, n int) value {
	if len(old) == 0 {
		r.inconclusive("Replace with empty old on symbolic string")
	}
	var out []value
	pos := 0
	for k := 0; n < 0 || k < n; k++ {
		i := r.bsIndex(s, old, pos)
		if i < 0 {
			break
		}
		out = append(out, s[pos:i]...)
		out = append(out, new...)
		pos = i + len(old)
	}
	out = append(out, s[pos:]...)
	return mkStr(out)
}

// bsAtoi models strconv.Atoi on a byte-vector string (length <= 18 digits).
func (r *Run) bsAtoi(fr *frame, s []value) value {
	synErr := func() value {
		return tuple{0, fr.i.mkErr(&verr{msg: "strconv.Atoi: parsing: invalid syntax", wrap: errSyntax})}
	}
	if len(s) == 0 {
		return synErr()
	}
	neg := false
	i := 0
	if r.decide(termVal(byteIsOneOf(s[0], "-"))) {
		neg = true
		i = 1
	} else if r.decide(termVal(byteIsOneOf(s[0], "+"))) {
		i = 1
	}
	if i == len(s) {
		return synErr()
	}
	if len(s)-i > 18 {
		r.inconclusive("Atoi of more than 18 symbolic digits")
	}
	acc := bvlit(0)
	conc := int64(0)
	allConc := true
	for ; i < len(s); i++ {
		isDigit := termVal(fmt.Sprintf("(and (bvule %s %s) (bvule %s %s))", bvlit('0'), byteTerm(s[i]), byteTerm(s[i]), bvlit('9')))
		if !isSym(s[i]) {
			isDigit = s[i].(byte) >= '0' && s[i].(byte) <= '9'
		}
		if !r.decide(isDigit) {
			return synErr()
		}
		if isSym(s[i]) {
			allConc = false
		} else {
			conc = conc*10 + int64(s[i].(byte)-'0')
		}
		acc = fmt.Sprintf("(bvadd (bvmul %s %s) (bvsub %s %s))", acc, bvlit(10), byteTerm(s[i]), bvlit('0'))
	}
	if allConc {
		if neg {
			conc = -conc
		}
		return tuple{int(conc), iface{}}
	}
	if neg {
		acc = "(bvneg " + acc + ")"
	}
	return tuple{symv{'i', acc}, iface{}}
}

// ---- dispatch from natives ----

func anySymstr(args ...value) bool {
	for _, a := range args {
		switch x := a.(type) {
		case symstr:
			return true
		case []value:
			for _, e := range x {
				if isSymstr(e) {
					return true
				}
			}
		}
	}
	return false
}

func anySmtStr(args ...value) bool {
	for _, a := range args {
		switch x := a.(type) {
		case symv:
			if x.k == 's' {
				return true
			}
		case []value:
			for _, e := range x {
				if sv, ok := e.(symv); ok && sv.k == 's' {
					return true
				}
			}
		}
	}
	return false
}

// lowerToSmt converts byte-vector strings among args into SMT string terms.
func lowerToSmt(args []value) []value {
	out := make([]value, len(args))
	for i, a := range args {
		switch x := a.(type) {
		case symstr:
			out[i] = symv{'s', smtOfSymstr(x)}
		case []value:
			n := make([]value, len(x))
			for k, e := range x {
				if ss, ok := e.(symstr); ok {
					n[k] = symv{'s', smtOfSymstr(ss)}
				} else {
					n[k] = e
				}
			}
			out[i] = n
		default:
			out[i] = a
		}
	}
	return out
}

// byteModels: name -> model over byte-vector strings
var byteModels = map[string]nativeFn{}

func init() {
	m := byteModels
	bs := func(v value) []value { b, _ := strBytes(v); return b }
	m["strings.Contains"] = func(fr *frame, a []value) value { return bsContains(bs(a[0]), bs(a[1])) }
	m["strings.HasPrefix"] = func(fr *frame, a []value) value {
		s, p := bs(a[0]), bs(a[1])
		if len(p) > len(s) {
			return false
		}
		return termVal(bytesEqAt(s, 0, p))
	}
	m["strings.HasSuffix"] = func(fr *frame, a []value) value {
		s, p := bs(a[0]), bs(a[1])
		if len(p) > len(s) {
			return false
		}
		return termVal(bytesEqAt(s, len(s)-len(p), p))
	}
	m["strings.TrimSuffix"] = func(fr *frame, a []value) value {
		s, p := bs(a[0]), bs(a[1])
		if len(p) <= len(s) && fr.i.R.decide(termVal(bytesEqAt(s, len(s)-len(p), p))) {
			return mkStr(s[:len(s)-len(p)])
		}
		return a[0]
	}
	m["strings.TrimPrefix"] = func(fr *frame, a []value) value {
		s, p := bs(a[0]), bs(a[1])
		if len(p) <= len(s) && fr.i.R.decide(termVal(bytesEqAt(s, 0, p))) {
			return mkStr(s[len(p):])
		}
		return a[0]
	}
	m["strings.TrimSpace"] = func(fr *frame, a []value) value { return fr.i.R.bsTrimSpace(bs(a[0])) }
	m["strings.Index"] = func(fr *frame, a []value) value { return fr.i.R.bsIndex(bs(a[0]), bs(a[1]), 0) }
	m["strings.Split"] = func(fr *frame, a []value) value { return fr.i.R.bsSplit(bs(a[0]), bs(a[1]), -1) }
	m["strings.SplitN"] = func(fr *frame, a []value) value {
		return fr.i.R.bsSplit(bs(a[0]), bs(a[1]), int(fr.i.R.concInt(a[2], "SplitN n")))
	}
	m["strings.Join"] = func(fr *frame, a []value) value {
		var out []value
		for k, e := range a[0].([]value) {
			if k > 0 {
				out = append(out, bs(a[1])...)
			}
			out = append(out, bs(e)...)
		}
		return mkStr(out)
	}
	m["strings.Replace"] = func(fr *frame, a []value) value {
		return fr.i.R.bsReplace(bs(a[0]), bs(a[1]), bs(a[2]), int(fr.i.R.concInt(a[3], "Replace n")))
	}
	m["strings.ReplaceAll"] = func(fr *frame, a []value) value { return fr.i.R.bsReplace(bs(a[0]), bs(a[1]), bs(a[2]), -1) }
	m["strconv.Atoi"] = func(fr *frame, a []value) value { return fr.i.R.bsAtoi(fr, bs(a[0])) }
	m["path/filepath.IsAbs"] = func(fr *frame, a []value) value {
		s := bs(a[0])
		if len(s) == 0 {
			return false
		}
		return termVal(byteIsOneOf(s[0], "/"))
	}
	m["sort.Strings"] = func(fr *frame, a []value) value {
		vs := a[0].([]value)
		// insertion sort; each comparison of symbolic strings is decided by a fork
		for i := 1; i < len(vs); i++ {
			for j := i; j > 0; j-- {
				x, _ := strBytes(vs[j])
				y, _ := strBytes(vs[j-1])
				if !fr.i.R.decide(symstrLess(x, y, false)) {
					break
				}
				vs[j], vs[j-1] = vs[j-1], vs[j]
			}
		}
		return nil
	}
	m["strconv.Quote"] = func(fr *frame, a []value) value {
		s := bs(a[0])
		for _, c := range s {
			if fr.i.R.decide(termVal(byteIsOneOf(c, "\"\\"))) {
				fr.i.R.inconclusive("strconv.Quote of symbolic string containing quote or backslash")
			}
		}
		out := append([]value{byte('"')}, s...)
		return mkStr(append(out, byte('"')))
	}
}

// itoaBytes renders a symbolic integer in decimal as a byte-vector string: forks on sign
// and number of digits; digits are fresh variables defined by x = sum d_k*10^k (no division).
// width > 0 requests zero padding to that width (fmt's %0*d).
func (r *Run) itoaBytes(x symv, width int) value {
	neg := r.branch(symv{'b', "(bvslt " + x.term + " " + bvlit(0) + ")"})
	mag := x.term
	if neg {
		mag = "(bvneg " + x.term + ")"
	}
	nd := 1
	pow := int64(10)
	for nd < 19 {
		if r.branch(symv{'b', "(bvult " + mag + " " + bvlit(pow) + ")"}) {
			break
		}
		nd++
		pow *= 10
	}
	r.itoaCtr++
	sum := ""
	var digs []value
	p := int64(1)
	for k := 0; k < nd; k++ {
		dn := fmt.Sprintf("itoa!%d!d%d", r.itoaCtr, k)
		r.Z.Send("(declare-const " + dn + " (_ BitVec 64))")
		r.addPC("(bvule " + dn + " " + bvlit(9) + ")")
		t := "(bvmul " + dn + " " + bvlit(p) + ")"
		if sum == "" {
			sum = t
		} else {
			sum = "(bvadd " + sum + " " + t + ")"
		}
		digs = append([]value{symv{'i', "(bvadd " + dn + " " + bvlit('0') + ")"}}, digs...)
		p *= 10
	}
	r.addPC("(= " + mag + " " + sum + ")")
	var out []value
	if neg {
		out = append(out, byte('-'))
	}
	for len(out)+len(digs) < width {
		out = append(out, byte('0'))
	}
	return mkStr(append(out, digs...))
}
