package interp

import (
	"fmt"
	"runtime/debug"
	"os"
	"runtime"
	"sort"
	"strings"
	"sync"
)

// ---- prototype baton scheduler with delay-bounded choice replay ----

type abortRun struct{ why string }

type gthread struct {
	id      int
	name    string
	wake    chan struct{}
	ready   func() bool // nil = runnable
	waitOn  string
	done    bool
	started bool
	lazy    bool
	quiescing bool
	settling  bool
}

type ChoicePoint struct {
	Kind     string
	N        int // alternatives
	Pick     int
	Forced   bool // only this alternative is feasible: nothing to explore
	Replayed bool
}

type Sched struct {
	R         *Run
	hostWG    sync.WaitGroup
	threads   []*gthread
	cur       *gthread
	prefix    []int
	Trace     []ChoicePoint
	Delays    int
	MaxDelays int
	aborted   bool
	Outcome   string
	Steps     int
	MaxSteps  int
	SchedPts  int
	mainDone  chan struct{}
	Events    []string
	timers    []*vtimer
	Clk       int64
	nextID    int
}

type vtimer struct {
	deadline int64
	fire     func()
	fired    bool
	stopped  bool
}

func NewSched(r *Run, prefix []int, maxDelays int) *Sched {
	return &Sched{R: r, prefix: prefix, MaxDelays: maxDelays, MaxSteps: 5_000_000, mainDone: make(chan struct{})}
}

func (s *Sched) drain() { s.hostWG.Wait() }

func (s *Sched) choose(kind string, n int) int {
	if n <= 1 {
		return 0
	}
	pick := 0
	if len(s.Trace) < len(s.prefix) {
		pick = s.prefix[len(s.Trace)]
		if pick >= n {
			panic(fmt.Sprintf("replay divergence: %s pick %d of %d at %d", kind, pick, n, len(s.Trace)))
		}
	}
	s.Trace = append(s.Trace, ChoicePoint{Kind: kind, N: n, Pick: pick})
	return pick
}

func (s *Sched) spawn(name string, f func()) *gthread {
	t := &gthread{id: s.nextID, name: name, wake: make(chan struct{}, 1)}
	s.nextID++
	s.threads = append(s.threads, t)
	s.hostWG.Add(1)
	go func() {
		defer s.hostWG.Done()
		<-t.wake
		defer func() {
			r := recover()
			if _, ok := r.(abortRun); ok {
				return
			}
			if r != nil {
				s.onPanic(t, r)
				return
			}
			t.done = true
			if t.id == 0 {
				if s.Outcome == "" {
					s.Outcome = "ok"
				}
				s.abortAll()
				return
			}
			s.reschedule(t, "end")
		}()
		if s.aborted {
			panic(abortRun{"aborted before start"})
		}
		t.started = true
		f()
	}()
	return t
}

// onPanic classifies a panic that unwound a whole interpreted goroutine.
func (s *Sched) onPanic(t *gthread, r interface{}) {
	if s.aborted {
		return
	}
	R := s.R
	msg := ""
	target := false
	switch p := r.(type) {
	case targetPanic:
		target = true
		msg = panicString(p.v)
	case *runtime.TypeAssertionError:
		msg = "engine: " + p.Error()
	case runtime.Error:
		target = true
		msg = p.Error()
	case string:
		msg = "engine: " + p
	case error:
		msg = "engine: " + p.Error()
	default:
		msg = fmt.Sprintf("engine: %v", r)
	}
	if target {
		site := R.panicSite
		if site == "" {
			site = R.lastSite()
		}
		s.Outcome = "panic: " + msg
		R.Violations = append(R.Violations, Violation{Label: "panic", Kind: "panic", Site: site,
			Shape: strings.Join(R.Shapes, ","), Detail: msg + " in goroutine " + t.name})
		R.fillModel(&R.Violations[len(R.Violations)-1])
	} else {
		if R.E.Debug {
			fmt.Fprintln(os.Stderr, "ENGINE PANIC:", msg, "at", R.lastSite())
			debug.PrintStack()
		}
		R.Inconcl = msg + " at " + R.lastSite()
		s.Outcome = "inconclusive: " + R.Inconcl
	}
	s.abortAll()
}

func panicString(v value) string {
	switch x := v.(type) {
	case iface:
		if e, ok := x.v.(*verr); ok {
			return e.msg
		}
		if s, ok := x.v.(string); ok {
			return s
		}
		return toString(x.v)
	case string:
		return x
	}
	return toString(v)
}

func (s *Sched) abortAll() {
	if s.aborted {
		return
	}
	s.aborted = true
	for _, t := range s.threads {
		select {
		case t.wake <- struct{}{}:
		default:
		}
	}
	close(s.mainDone)
}

func (s *Sched) runnable() []*gthread {
	for {
		var r, lazy []*gthread
		for _, t := range s.threads {
			if t.done {
				continue
			}
			if t.ready == nil || t.ready() {
				if t.lazy {
					lazy = append(lazy, t)
				} else {
					r = append(r, t)
				}
			}
		}
		if len(r) > 0 {
			return r
		}
		// only environment activity left: lazy threads and timers compete
		n := len(lazy)
		timer := s.pendingTimers()
		if timer {
			n++
		}
		if n == 0 {
			return nil
		}
		pick := s.choose("env", n)
		if pick < len(lazy) {
			return []*gthread{lazy[pick]}
		}
		s.fireEarliestTimer()
	}
}

// order candidates round-robin starting after/at current
func (s *Sched) ordered(cands []*gthread, cur *gthread, curFirst bool) []*gthread {
	sort.Slice(cands, func(i, j int) bool { return cands[i].id < cands[j].id })
	if cur == nil {
		return cands
	}
	var a, b []*gthread
	for _, t := range cands {
		if t.id > cur.id || (curFirst && t.id == cur.id) {
			a = append(a, t)
		} else {
			b = append(b, t)
		}
	}
	return append(a, b...)
}

// reschedule: called by the thread holding the baton; picks next and hands over.
// kind: "yield" (cur stays runnable), "block" (cur has ready pred), "end".
func (s *Sched) reschedule(cur *gthread, kind string) {
	if s.aborted {
		panic(abortRun{"aborted"})
	}
	s.SchedPts++
	cands := s.runnable()
	if len(cands) == 0 {
		var w []string
		for _, t := range s.threads {
			if !t.done {
				w = append(w, t.name+"@"+t.waitOn)
			}
		}
		s.Outcome = fmt.Sprintf("hang %v", w)
		s.R.Violations = append(s.R.Violations, Violation{Label: "hang", Kind: "hang", Shape: strings.Join(s.R.Shapes, ","), Detail: fmt.Sprint(w)})
		s.R.fillModel(&s.R.Violations[len(s.R.Violations)-1])
		s.abortAll()
		if kind == "end" {
			return
		}
		panic(abortRun{"hang"})
	}
	cands = s.ordered(cands, cur, kind == "yield")
	budget := s.MaxDelays - s.Delays
	n := len(cands)
	if n > budget+1 {
		n = budget + 1
	}
	pick := s.choose("sched:"+kind, n)
	s.Delays += pick
	next := cands[pick]
	if next == cur {
		return
	}
	s.cur = next
	next.wake <- struct{}{}
	if kind == "end" {
		return
	}
	<-cur.wake
	if s.aborted {
		panic(abortRun{"aborted"})
	}
}

func (s *Sched) Yield(label string) {
	s.cur.waitOn = "yield:" + label
	s.reschedule(s.cur, "yield")
	// the goroutine passes the yield point now
	s.R.YieldLog = append(s.R.YieldLog, label)
}

// block until pred holds
func (s *Sched) Block(on string, pred func() bool) {
	for !pred() {
		cur := s.cur
		cur.ready = pred
		cur.waitOn = on
		s.reschedule(cur, "block")
		cur.ready = nil
	}
}

func (s *Sched) step() {
	s.Steps++
	if s.Steps > s.MaxSteps {
		s.Outcome = "inconclusive: step limit"
		s.R.Inconcl = "step limit exceeded"
		s.abortAll()
		panic(abortRun{"steps"})
	}
}

func (s *Sched) addTimer(d int64, fire func()) *vtimer {
	t := &vtimer{deadline: s.Clk + d, fire: fire}
	s.timers = append(s.timers, t)
	return t
}

func (s *Sched) fireEarliestTimer() bool {
	var best *vtimer
	for _, t := range s.timers {
		if t.fired || t.stopped {
			continue
		}
		if best == nil || t.deadline < best.deadline {
			best = t
		}
	}
	if best == nil {
		return false
	}
	best.fired = true
	if best.deadline > s.Clk {
		s.Clk = best.deadline
	}
	best.fire()
	return true
}

func (s *Sched) pendingTimers() bool {
	for _, t := range s.timers {
		if !t.fired && !t.stopped {
			return true
		}
	}
	return false
}

func (s *Sched) Event(e string) { s.Events = append(s.Events, fmt.Sprintf("%d:%s", s.Clk, e)) }

// ---- channels ----

type vchan struct {
	buf    []value
	cap    int
	closed bool
	// rendezvous for unbuffered: a sender parks its value in 'offer'
	offer    []value
	taken    int
	name     string
}

func (c *vchan) canRecv() bool { return c != nil && (len(c.buf) > 0 || len(c.offer) > 0 || c.closed) }
func (c *vchan) canSend() bool { return c != nil && (c.closed || len(c.buf) < c.cap) }

func (s *Sched) chanSend(c *vchan, v value) {
	if c == nil {
		s.Block("nil chan send", func() bool { return false })
	}
	if c.closed {
		panic(targetPanic{"send on closed channel"})
	}
	if c.cap > 0 {
		s.Block("chan send", c.canSend)
		if c.closed {
			panic(targetPanic{"send on closed channel"})
		}
		c.buf = append(c.buf, v)
		return
	}
	// unbuffered: offer and wait until taken
	c.offer = append(c.offer, v)
	my := c.taken + len(c.offer)
	s.Block("chan send(unbuf)", func() bool { return c.taken >= my })
}

func (s *Sched) chanRecv(c *vchan) (value, bool) {
	if c == nil {
		s.Block("nil chan recv", func() bool { return false })
	}
	s.Block("chan recv", c.canRecv)
	if len(c.buf) > 0 {
		v := c.buf[0]
		c.buf = c.buf[1:]
		return v, true
	}
	if len(c.offer) > 0 {
		v := c.offer[0]
		c.offer = c.offer[1:]
		c.taken++
		return v, true
	}
	return nil, false
}

func (s *Sched) chanClose(c *vchan) {
	if c.closed {
		panic(targetPanic{"close of closed channel"})
	}
	c.closed = true
}
