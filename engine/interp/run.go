package interp

import (
	"fmt"
	"go/token"
	"go/types"
	"runtime"
	"sort"
	"strings"
	"time"

	"golang.org/x/tools/go/ssa"
)

// Engine holds what is shared (read-only) between all runs of one harness.
type Engine struct {
	Prog     *ssa.Program
	Pkg      *ssa.Package
	Binds    map[string]string // function (ssa String()) -> harness function name (static binds)
	ModPath  string            // module path of the code under test
	MaxSteps int
	Timeout  int // solver per-query timeout, ms
	Debug    bool
	needsInit map[*ssa.Global]bool
}

// Run is the per-execution context: scheduler, path condition, solver handle, side tables.
// Exactly one goroutine (the baton holder) touches it at a time.
type Run struct {
	E   *Engine
	I   *interpreter
	S   *Sched
	Z   *Solver
	PC  []string
	// declared symbolic variables in declaration order
	Decls []Decl

	MapOrderSymbolic bool
	MapOrderFuncs    []string
	Unwind           int

	mutexes map[*value]*mutexSt
	conds   map[*value]*condSt
	wgs     map[*value]*wgSt
	onces   map[*value]*onceSt
	snaps   []value
	hooks   map[string]nativeFn // dynamic binds (verifBind)
	loops   map[loopKey]int
	timers  map[*value]*vtimer

	Violations []Violation
	Reached    map[string]bool
	Shapes     []string
	Observes   []string
	Asserts    int
	Forks      int
	Inconcl    string // non-empty: run is inconclusive, with reason
	Chooses    []int  // verifChoose results in order (for native replay)
	ChooseK    map[string]int
	YieldLog   []string // yield labels in the order they were passed
	nameCtr    map[string]int
	absCtr     int
	itoaCtr    int
	panicSite  string
	lastModPos token.Pos
}

type loopKey struct {
	fr *frame
	b  *ssa.BasicBlock
}

type Decl struct {
	Name string
	Kind byte // 'i','b','s' (SMT String), 'S' (byte-vector string of length Len)
	Len  int
}

type Violation struct {
	ChooseK map[string]int
	Yields  []string
	Label  string
	Kind   string // "assert" | "panic" | "hang"
	Site   string
	Shape  string
	Model  map[string]string // symbolic variable -> value (SMT syntax), nil for concrete
	Choose []int
	Events []string
	Trace  []ChoicePoint
	Detail string
}

type RunResult struct {
	Outcome    string
	Trace      []ChoicePoint
	Events     []string
	Steps      int
	SchedPts   int
	Funcs      map[string]int
	Dur        time.Duration
	Violations []Violation
	Reached    map[string]bool
	Shapes     []string
	Observes   []string
	ObservesConcrete []string
	Asserts    int
	Forks      int
	Inconcl    string
	Decls      []Decl
	Model      map[string]string // model of the final path condition (when requested)
	Chooses    []int
	ChooseK    map[string]int
	Yields     []string
	PCLen      int
}

type engineAbort struct{ why string }

// inconclusive aborts the current run as inconclusive.
func (r *Run) inconclusive(why string) {
	if r.Inconcl == "" {
		r.Inconcl = why
	}
	if r.S.Outcome == "" {
		r.S.Outcome = "inconclusive: " + why
	}
	r.S.abortAll()
	panic(abortRun{"inconclusive"})
}

func (r *Run) fresh(base string) string {
	if r.nameCtr == nil {
		r.nameCtr = map[string]int{}
	}
	n := r.nameCtr[base]
	r.nameCtr[base] = n + 1
	if n == 0 {
		return base
	}
	return fmt.Sprintf("%s!%d", base, n)
}

// NewRunInterp builds a fresh interpreter state (globals zeroed, module inits run).
func (e *Engine) newInterp(r *Run) *interpreter {
	prog := e.Prog
	i := &interpreter{prog: prog, globals: make(map[*ssa.Global]*value), goroutines: 1,
		sizes: types.SizesFor("gc", "amd64"), Funcs: map[*ssa.Function]int{}, R: r, globalSet: map[*ssa.Global]bool{}}
	i.runtimeErrorString = prog.ImportedPackage("runtime").Type("errorString").Object().Type()
	i.errType = types.NewPointer(prog.ImportedPackage("errors").Type("errorString").Object().Type())
	if cp := prog.ImportedPackage("context"); cp != nil {
		i.ctxType = types.NewPointer(cp.Type("cancelCtx").Object().Type())
	}
	initReflect(i)
	for _, p := range prog.AllPackages() {
		for _, m := range p.Members {
			if v, ok := m.(*ssa.Global); ok {
				cell := zero(typeparams.MustDeref(v.Type()))
				i.globals[v] = &cell
			}
		}
	}
	return i
}

func (i *interpreter) setGlobal(pkg, name string, v value) {
	if p := i.prog.ImportedPackage(pkg); p != nil {
		if g, ok := p.Members[name].(*ssa.Global); ok {
			*i.globals[g] = v
			i.globalSet[g] = true
		}
	}
}

// Prepare computes the set of foreign package-level variables that have an initialiser
// (stores in the package's init function or its helpers): reading one of them without
// having run that initialiser would silently use a zero value.
func (e *Engine) Prepare() {
	e.needsInit = map[*ssa.Global]bool{}
	for _, p := range e.Prog.AllPackages() {
		if strings.HasPrefix(p.Pkg.Path(), e.ModPath) {
			continue
		}
		// the synthesised init and the source-level init functions (init#1, ...)
		for name, m := range p.Members {
			fn, ok := m.(*ssa.Function)
			if !ok || !strings.HasPrefix(name, "init") {
				continue
			}
			for _, b := range fn.Blocks {
				for _, ins := range b.Instrs {
					if st, ok := ins.(*ssa.Store); ok {
						if g := rootGlobal(st.Addr); g != nil && g.Name() != "init$guard" {
							e.needsInit[g] = true
						}
					}
				}
			}
		}
	}
}

func rootGlobal(v ssa.Value) *ssa.Global {
	for k := 0; k < 8; k++ {
		switch x := v.(type) {
		case *ssa.Global:
			return x
		case *ssa.FieldAddr:
			v = x.X
		case *ssa.IndexAddr:
			v = x.X
		default:
			return nil
		}
	}
	return nil
}

// Execute runs harness function `name` once under the given choice prefix.
func (e *Engine) Execute(z *Solver, name string, prefix []int, maxDelays int, wantModel bool) (res RunResult) {
	t0 := time.Now()
	r := &Run{E: e, Z: z, Reached: map[string]bool{}, Unwind: 64}
	r.mutexes = map[*value]*mutexSt{}
	r.conds = map[*value]*condSt{}
	r.wgs = map[*value]*wgSt{}
	r.onces = map[*value]*onceSt{}
	r.hooks = map[string]nativeFn{}
	r.loops = map[loopKey]int{}
	i := e.newInterp(r)
	r.I = i
	i.setGlobal("io", "EOF", i.mkErr(errEOF))
	i.setGlobal("io", "ErrUnexpectedEOF", i.mkErr(&verr{msg: "unexpected EOF"}))
	i.setGlobal("context", "Canceled", i.mkErr(errCanceled))
	i.setGlobal("context", "DeadlineExceeded", i.mkErr(errDeadline))
	i.setGlobal("os", "ErrNotExist", i.mkErr(errNotExist))
	i.setGlobal("io/fs", "ErrNotExist", i.mkErr(errNotExist))
	i.setGlobal("strconv", "ErrSyntax", i.mkErr(errSyntax))
	i.setGlobal("strconv", "ErrRange", i.mkErr(errRange))
	z.Reset(e.Timeout)
	r.S = NewSched(r, prefix, maxDelays)
	if e.MaxSteps > 0 {
		r.S.MaxSteps = e.MaxSteps
	}
	for target, hname := range e.Binds {
		hf := e.Pkg.Func(hname)
		if hf == nil {
			panic("bind: no harness function " + hname)
		}
		r.hooks[target] = func(fr *frame, args []value) value { return call(fr.i, fr, 0, hf, args) }
	}
	hfn := e.Pkg.Func(name)
	if hfn == nil {
		panic("no harness function " + name + " in " + e.Pkg.Pkg.Path())
	}
	main := r.S.spawn("main", func() {
		// run package initialisers of module packages (dependencies first)
		e.runInits(i)
		call(i, nil, 0, hfn, nil)
	})
	r.S.cur = main
	main.wake <- struct{}{}
	<-r.S.mainDone
	// wait for all host goroutines of this run to have observed the abort
	r.S.drain()
	res = RunResult{Outcome: r.S.Outcome, Trace: r.S.Trace, Events: r.S.Events, Steps: r.S.Steps,
		SchedPts: r.S.SchedPts, Dur: time.Since(t0), Violations: r.Violations, Reached: r.Reached,
		Shapes: r.Shapes, Observes: r.Observes, Asserts: r.Asserts, Forks: r.Forks, Inconcl: r.Inconcl,
		Decls: r.Decls, Chooses: r.Chooses, ChooseK: r.ChooseK, Yields: r.YieldLog, PCLen: len(r.PC)}
	res.Funcs = map[string]int{}
	for f, n := range i.Funcs {
		res.Funcs[f.String()] += n
	}
	if wantModel && res.Outcome == "ok" {
		want := declNames2(r.Decls)
		var oterms []string
		for _, o := range r.Observes {
			if k := strings.Index(o, "="); k >= 0 {
				oterms = append(oterms, o[k+1:])
			}
		}
		if len(want)+len(oterms) > 0 {
			st, m := z.Check("", append(want, oterms...))
			if st == "sat" {
				res.Model = packModel(r.Decls, m)
				for _, o := range r.Observes {
					if k := strings.Index(o, "="); k >= 0 {
						res.ObservesConcrete = append(res.ObservesConcrete, o[:k+1]+m[o[k+1:]])
					}
				}
			}
		} else {
			res.Model = map[string]string{}
		}
	}
	return res
}

func declNames(ds []Decl) []string {
	var r []string
	for _, d := range ds {
		r = append(r, d.Name)
	}
	return r
}

// runInits executes init functions of packages belonging to the module under test,
// in dependency order, each once per run.
func (e *Engine) runInits(i *interpreter) {
	seen := map[*types.Package]bool{}
	var visit func(p *types.Package)
	visit = func(p *types.Package) {
		if seen[p] {
			return
		}
		seen[p] = true
		for _, imp := range p.Imports() {
			visit(imp)
		}
		sp := e.Prog.Package(p)
		if sp == nil {
			return
		}
		if !strings.HasPrefix(p.Path(), e.ModPath) {
			// foreign package: mark as initialised, do not run
			if g, ok := sp.Members["init$guard"].(*ssa.Global); ok {
				*i.globals[g] = true
			}
			return
		}
		if f := sp.Func("init"); f != nil {
			call(i, nil, token.NoPos, f, nil)
		}
	}
	visit(e.Pkg.Pkg)
}

// siteOf gives "file:line" of the innermost frame position for reports.
func (i *interpreter) posString(pos token.Pos) string {
	if pos == token.NoPos {
		return "?"
	}
	p := i.prog.Fset.Position(pos)
	f := p.Filename
	if k := strings.Index(f, "/src/"); k >= 0 {
		f = f[k+1:]
	}
	return fmt.Sprintf("%s:%d", f, p.Line)
}

func sortedKeys(m map[string]bool) []string {
	var r []string
	for k := range m {
		r = append(r, k)
	}
	sort.Strings(r)
	return r
}

var _ = runtime.Gosched
