// Copyright 2013 The Go Authors. All rights reserved.
// Use of this source code is governed by a BSD-style
// license that can be found in the LICENSE file.

package interp

// Custom hashtable atop map.
// For use when the key's equivalence relation is not consistent with ==.

// The Go specification doesn't address the atomicity of map operations.
// The FAQ states that an implementation is permitted to crash on
// concurrent map access.

import (
	"go/types"
)

type hashable interface {
	hash(t types.Type) int
	eq(t types.Type, x interface{}) bool
}

type entry struct {
	key   hashable
	value value
	next  *entry
}

// A hashtable atop the built-in map.  Since each bucket contains
// exactly one hash value, there's no need to perform hash-equality
// tests when walking the linked list.  Rehashing is done by the
// underlying map.
type hashmap struct {
	keyType types.Type
	table   map[int]*entry
	length  int // number of entries in map
}

// makeMap returns an empty initialized map of key type kt,
// preallocating space for reserve elements.
func makeMap(kt types.Type, reserve int64) value {
	if usesBuiltinMap(kt) {
		return make(map[value]value, reserve)
	}
	return &hashmap{keyType: kt, table: make(map[int]*entry, reserve)}
}

// delete removes the association for key k, if any.
func (m *hashmap) delete(k hashable) {
	if m != nil {
		hash := k.hash(m.keyType)
		head := m.table[hash]
		if head != nil {
			if k.eq(m.keyType, head.key) {
				m.table[hash] = head.next
				m.length--
				return
			}
			prev := head
			for e := head.next; e != nil; e = e.next {
				if k.eq(m.keyType, e.key) {
					prev.next = e.next
					m.length--
					return
				}
				prev = e
			}
		}
	}
}

// lookup returns the value associated with key k, if present, or
// value(nil) otherwise.
func (m *hashmap) lookup(k hashable) value {
	if m != nil {
		hash := k.hash(m.keyType)
		for e := m.table[hash]; e != nil; e = e.next {
			if k.eq(m.keyType, e.key) {
				return e.value
			}
		}
	}
	return nil
}

// insert updates the map to associate key k with value v.  If there
// was already an association for an eq() (though not necessarily ==)
// k, the previous key remains in the map and its associated value is
// updated.
func (m *hashmap) insert(k hashable, v value) {
	hash := k.hash(m.keyType)
	head := m.table[hash]
	for e := head; e != nil; e = e.next {
		if k.eq(m.keyType, e.key) {
			e.value = v
			return
		}
	}
	m.table[hash] = &entry{
		key:   k,
		value: v,
		next:  head,
	}
	m.length++
}

// len returns the number of key/value associations in the map.
func (m *hashmap) len() int {
	if m != nil {
		return m.length
	}
	return 0
}

// entries returns a rangeable map of entries.
func (m *hashmap) entries() map[int]*entry {
	if m != nil {
		return m.table
	}
	return nil
}
