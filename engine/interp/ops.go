// Copyright 2013 The Go Authors. All rights reserved.
// Use of this source code is governed by a BSD-style
// license that can be found in the LICENSE file.

package interp

import (
	"sort"
	"bytes"
	"fmt"
	"go/constant"
	"go/token"
	"go/types"
	"os"
	"strings"
	"unsafe"

	"golang.org/x/tools/go/ssa"
	
)

// If the target program panics, the interpreter panics with this type.
type targetPanic struct {
	v value
}

func (p targetPanic) String() string {
	return toString(p.v)
}

// If the target program calls exit, the interpreter panics with this type.
type exitPanic int

// constValue returns the value of the constant with the
// dynamic type tag appropriate for c.Type().
func constValue(c *ssa.Const) value {
	if c.Value == nil {
		return zero(c.Type()) // typed zero
	}
	// c is not a type parameter so it's underlying type is basic.

	if t, ok := c.Type().Underlying().(*types.Basic); ok {
		// TODO(adonovan): eliminate untyped constants from SSA form.
		switch t.Kind() {
		case types.Bool, types.UntypedBool:
			return constant.BoolVal(c.Value)
		case types.Int, types.UntypedInt:
			// Assume sizeof(int) is same on host and target.
			return int(c.Int64())
		case types.Int8:
			return int8(c.Int64())
		case types.Int16:
			return int16(c.Int64())
		case types.Int32, types.UntypedRune:
			return int32(c.Int64())
		case types.Int64:
			return c.Int64()
		case types.Uint:
			// Assume sizeof(uint) is same on host and target.
			return uint(c.Uint64())
		case types.Uint8:
			return uint8(c.Uint64())
		case types.Uint16:
			return uint16(c.Uint64())
		case types.Uint32:
			return uint32(c.Uint64())
		case types.Uint64:
			return c.Uint64()
		case types.Uintptr:
			// Assume sizeof(uintptr) is same on host and target.
			return uintptr(c.Uint64())
		case types.Float32:
			return float32(c.Float64())
		case types.Float64, types.UntypedFloat:
			return c.Float64()
		case types.Complex64:
			return complex64(c.Complex128())
		case types.Complex128, types.UntypedComplex:
			return c.Complex128()
		case types.String, types.UntypedString:
			if c.Value.Kind() == constant.String {
				return constant.StringVal(c.Value)
			}
			return string(rune(c.Int64()))
		}
	}

	panic(fmt.Sprintf("constValue: %s", c))
}

// fitsInt returns true if x fits in type int according to sizes.
func fitsInt(x int64, sizes types.Sizes) bool {
	intSize := sizes.Sizeof(types.Typ[types.Int])
	if intSize < sizes.Sizeof(types.Typ[types.Int64]) {
		maxInt := int64(1)<<((intSize*8)-1) - 1
		minInt := -int64(1) << ((intSize * 8) - 1)
		return minInt <= x && x <= maxInt
	}
	return true
}

// asInt64 converts x, which must be an integer, to an int64.
//
// Callers that need a value directly usable as an int should combine this with fitsInt().
func asInt64(x value) int64 {
	switch x := x.(type) {
	case int:
		return int64(x)
	case int8:
		return int64(x)
	case int16:
		return int64(x)
	case int32:
		return int64(x)
	case int64:
		return x
	case uint:
		return int64(x)
	case uint8:
		return int64(x)
	case uint16:
		return int64(x)
	case uint32:
		return int64(x)
	case uint64:
		return int64(x)
	case uintptr:
		return int64(x)
	}
	panic(fmt.Sprintf("cannot convert %T to int64", x))
}

// asUint64 converts x, which must be an unsigned integer, to a uint64
// suitable for use as a bitwise shift count.
func asUint64(x value) uint64 {
	switch x := x.(type) {
	case uint:
		return uint64(x)
	case uint8:
		return uint64(x)
	case uint16:
		return uint64(x)
	case uint32:
		return uint64(x)
	case uint64:
		return x
	case uintptr:
		return uint64(x)
	}
	panic(fmt.Sprintf("cannot convert %T to uint64", x))
}

// asUnsigned returns the value of x, which must be an integer type, as its equivalent unsigned type,
// and returns true if x is non-negative.
func asUnsigned(x value) (value, bool) {
	switch x := x.(type) {
	case int:
		return uint(x), x >= 0
	case int8:
		return uint8(x), x >= 0
	case int16:
		return uint16(x), x >= 0
	case int32:
		return uint32(x), x >= 0
	case int64:
		return uint64(x), x >= 0
	case uint, uint8, uint32, uint64, uintptr:
		return x, true
	}
	panic(fmt.Sprintf("cannot convert %T to unsigned", x))
}

// zero returns a new "zero" value of the specified type.
func zero(t types.Type) value {
	switch t := t.(type) {
	case *types.Basic:
		if t.Kind() == types.UntypedNil {
			panic("untyped nil has no zero value")
		}
		if t.Info()&types.IsUntyped != 0 {
			// TODO(adonovan): make it an invariant that
			// this is unreachable.  Currently some
			// constants have 'untyped' types when they
			// should be defaulted by the typechecker.
			t = types.Default(t).(*types.Basic)
		}
		switch t.Kind() {
		case types.Bool:
			return false
		case types.Int:
			return int(0)
		case types.Int8:
			return int8(0)
		case types.Int16:
			return int16(0)
		case types.Int32:
			return int32(0)
		case types.Int64:
			return int64(0)
		case types.Uint:
			return uint(0)
		case types.Uint8:
			return uint8(0)
		case types.Uint16:
			return uint16(0)
		case types.Uint32:
			return uint32(0)
		case types.Uint64:
			return uint64(0)
		case types.Uintptr:
			return uintptr(0)
		case types.Float32:
			return float32(0)
		case types.Float64:
			return float64(0)
		case types.Complex64:
			return complex64(0)
		case types.Complex128:
			return complex128(0)
		case types.String:
			return ""
		case types.UnsafePointer:
			return unsafe.Pointer(nil)
		default:
			panic(fmt.Sprint("zero for unexpected type:", t))
		}
	case *types.Pointer:
		return (*value)(nil)
	case *types.Array:
		a := make(array, t.Len())
		for i := range a {
			a[i] = zero(t.Elem())
		}
		return a
	case *types.Named:
		return zero(t.Underlying())
	case *types.Alias:
		return zero(types.Unalias(t))
	case *types.Interface:
		return iface{} // nil type, methodset and value
	case *types.Slice:
		return []value(nil)
	case *types.Struct:
		s := make(structure, t.NumFields())
		for i := range s {
			s[i] = zero(t.Field(i).Type())
		}
		return s
	case *types.Tuple:
		if t.Len() == 1 {
			return zero(t.At(0).Type())
		}
		s := make(tuple, t.Len())
		for i := range s {
			s[i] = zero(t.At(i).Type())
		}
		return s
	case *types.Chan:
		return (*vchan)(nil)
	case *types.Map:
		if usesBuiltinMap(t.Key()) {
			return map[value]value(nil)
		}
		return (*hashmap)(nil)
	case *types.Signature:
		return (*ssa.Function)(nil)
	}
	panic(fmt.Sprint("zero: unexpected ", t))
}

// slice returns x[lo:hi:max].  Any of lo, hi and max may be nil.
func slice(x, lo, hi, max value) value {
	var Len, Cap int
	switch x := x.(type) {
	case string:
		Len = len(x)
	case []value:
		Len = len(x)
		Cap = cap(x)
	case *value: // *array
		a := (*x).(array)
		Len = len(a)
		Cap = cap(a)
	}

	l := int64(0)
	if lo != nil {
		l = asInt64(lo)
	}

	h := int64(Len)
	if hi != nil {
		h = asInt64(hi)
	}

	m := int64(Cap)
	if max != nil {
		m = asInt64(max)
	}

	switch x := x.(type) {
	case string:
		return x[l:h]
	case []value:
		return x[l:h:m]
	case *value: // *array
		a := (*x).(array)
		return []value(a)[l:h:m]
	}
	panic(fmt.Sprintf("slice: unexpected X type: %T", x))
}

// lookup returns x[idx] where x is a map.
func lookup(instr *ssa.Lookup, x, idx value) value {
	switch x := x.(type) { // map or string
	case map[value]value, *hashmap:
		var v value
		var ok bool
		switch x := x.(type) {
		case map[value]value:
			v, ok = x[idx]
		case *hashmap:
			v = x.lookup(idx.(hashable))
			ok = v != nil
		}
		if !ok {
			v = zero(instr.X.Type().Underlying().(*types.Map).Elem())
		}
		if instr.CommaOk {
			v = tuple{v, ok}
		}
		return v
	}
	panic(fmt.Sprintf("unexpected x type in Lookup: %T", x))
}

// binop implements all arithmetic and logical binary operators for
// numeric datatypes and strings.  Both operands must have identical
// dynamic type.
func binop(op token.Token, t types.Type, x, y value) value {
	if isSym(x) || isSym(y) {
		return symBinop(op, t, x, y)
	}
	switch op {
	case token.ADD:
		switch x.(type) {
		case int:
			return x.(int) + y.(int)
		case int8:
			return x.(int8) + y.(int8)
		case int16:
			return x.(int16) + y.(int16)
		case int32:
			return x.(int32) + y.(int32)
		case int64:
			return x.(int64) + y.(int64)
		case uint:
			return x.(uint) + y.(uint)
		case uint8:
			return x.(uint8) + y.(uint8)
		case uint16:
			return x.(uint16) + y.(uint16)
		case uint32:
			return x.(uint32) + y.(uint32)
		case uint64:
			return x.(uint64) + y.(uint64)
		case uintptr:
			return x.(uintptr) + y.(uintptr)
		case float32:
			return x.(float32) + y.(float32)
		case float64:
			return x.(float64) + y.(float64)
		case complex64:
			return x.(complex64) + y.(complex64)
		case complex128:
			return x.(complex128) + y.(complex128)
		case string:
			return x.(string) + y.(string)
		}

	case token.SUB:
		switch x.(type) {
		case int:
			return x.(int) - y.(int)
		case int8:
			return x.(int8) - y.(int8)
		case int16:
			return x.(int16) - y.(int16)
		case int32:
			return x.(int32) - y.(int32)
		case int64:
			return x.(int64) - y.(int64)
		case uint:
			return x.(uint) - y.(uint)
		case uint8:
			return x.(uint8) - y.(uint8)
		case uint16:
			return x.(uint16) - y.(uint16)
		case uint32:
			return x.(uint32) - y.(uint32)
		case uint64:
			return x.(uint64) - y.(uint64)
		case uintptr:
			return x.(uintptr) - y.(uintptr)
		case float32:
			return x.(float32) - y.(float32)
		case float64:
			return x.(float64) - y.(float64)
		case complex64:
			return x.(complex64) - y.(complex64)
		case complex128:
			return x.(complex128) - y.(complex128)
		}

	case token.MUL:
		switch x.(type) {
		case int:
			return x.(int) * y.(int)
		case int8:
			return x.(int8) * y.(int8)
		case int16:
			return x.(int16) * y.(int16)
		case int32:
			return x.(int32) * y.(int32)
		case int64:
			return x.(int64) * y.(int64)
		case uint:
			return x.(uint) * y.(uint)
		case uint8:
			return x.(uint8) * y.(uint8)
		case uint16:
			return x.(uint16) * y.(uint16)
		case uint32:
			return x.(uint32) * y.(uint32)
		case uint64:
			return x.(uint64) * y.(uint64)
		case uintptr:
			return x.(uintptr) * y.(uintptr)
		case float32:
			return x.(float32) * y.(float32)
		case float64:
			return x.(float64) * y.(float64)
		case complex64:
			return x.(complex64) * y.(complex64)
		case complex128:
			return x.(complex128) * y.(complex128)
		}

	case token.QUO:
		switch x.(type) {
		case int:
			return x.(int) / y.(int)
		case int8:
			return x.(int8) / y.(int8)
		case int16:
			return x.(int16) / y.(int16)
		case int32:
			return x.(int32) / y.(int32)
		case int64:
			return x.(int64) / y.(int64)
		case uint:
			return x.(uint) / y.(uint)
		case uint8:
			return x.(uint8) / y.(uint8)
		case uint16:
			return x.(uint16) / y.(uint16)
		case uint32:
			return x.(uint32) / y.(uint32)
		case uint64:
			return x.(uint64) / y.(uint64)
		case uintptr:
			return x.(uintptr) / y.(uintptr)
		case float32:
			return x.(float32) / y.(float32)
		case float64:
			return x.(float64) / y.(float64)
		case complex64:
			return x.(complex64) / y.(complex64)
		case complex128:
			return x.(complex128) / y.(complex128)
		}

	case token.REM:
		switch x.(type) {
		case int:
			return x.(int) % y.(int)
		case int8:
			return x.(int8) % y.(int8)
		case int16:
			return x.(int16) % y.(int16)
		case int32:
			return x.(int32) % y.(int32)
		case int64:
			return x.(int64) % y.(int64)
		case uint:
			return x.(uint) % y.(uint)
		case uint8:
			return x.(uint8) % y.(uint8)
		case uint16:
			return x.(uint16) % y.(uint16)
		case uint32:
			return x.(uint32) % y.(uint32)
		case uint64:
			return x.(uint64) % y.(uint64)
		case uintptr:
			return x.(uintptr) % y.(uintptr)
		}

	case token.AND:
		switch x.(type) {
		case int:
			return x.(int) & y.(int)
		case int8:
			return x.(int8) & y.(int8)
		case int16:
			return x.(int16) & y.(int16)
		case int32:
			return x.(int32) & y.(int32)
		case int64:
			return x.(int64) & y.(int64)
		case uint:
			return x.(uint) & y.(uint)
		case uint8:
			return x.(uint8) & y.(uint8)
		case uint16:
			return x.(uint16) & y.(uint16)
		case uint32:
			return x.(uint32) & y.(uint32)
		case uint64:
			return x.(uint64) & y.(uint64)
		case uintptr:
			return x.(uintptr) & y.(uintptr)
		}

	case token.OR:
		switch x.(type) {
		case int:
			return x.(int) | y.(int)
		case int8:
			return x.(int8) | y.(int8)
		case int16:
			return x.(int16) | y.(int16)
		case int32:
			return x.(int32) | y.(int32)
		case int64:
			return x.(int64) | y.(int64)
		case uint:
			return x.(uint) | y.(uint)
		case uint8:
			return x.(uint8) | y.(uint8)
		case uint16:
			return x.(uint16) | y.(uint16)
		case uint32:
			return x.(uint32) | y.(uint32)
		case uint64:
			return x.(uint64) | y.(uint64)
		case uintptr:
			return x.(uintptr) | y.(uintptr)
		}

	case token.XOR:
		switch x.(type) {
		case int:
			return x.(int) ^ y.(int)
		case int8:
			return x.(int8) ^ y.(int8)
		case int16:
			return x.(int16) ^ y.(int16)
		case int32:
			return x.(int32) ^ y.(int32)
		case int64:
			return x.(int64) ^ y.(int64)
		case uint:
			return x.(uint) ^ y.(uint)
		case uint8:
			return x.(uint8) ^ y.(uint8)
		case uint16:
			return x.(uint16) ^ y.(uint16)
		case uint32:
			return x.(uint32) ^ y.(uint32)
		case uint64:
			return x.(uint64) ^ y.(uint64)
		case uintptr:
			return x.(uintptr) ^ y.(uintptr)
		}

	case token.AND_NOT:
		switch x.(type) {
		case int:
			return x.(int) &^ y.(int)
		case int8:
			return x.(int8) &^ y.(int8)
		case int16:
			return x.(int16) &^ y.(int16)
		case int32:
			return x.(int32) &^ y.(int32)
		case int64:
			return x.(int64) &^ y.(int64)
		case uint:
			return x.(uint) &^ y.(uint)
		case uint8:
			return x.(uint8) &^ y.(uint8)
		case uint16:
			return x.(uint16) &^ y.(uint16)
		case uint32:
			return x.(uint32) &^ y.(uint32)
		case uint64:
			return x.(uint64) &^ y.(uint64)
		case uintptr:
			return x.(uintptr) &^ y.(uintptr)
		}

	case token.SHL:
		u, ok := asUnsigned(y)
		if !ok {
			panic("negative shift amount")
		}
		y := asUint64(u)
		switch x.(type) {
		case int:
			return x.(int) << y
		case int8:
			return x.(int8) << y
		case int16:
			return x.(int16) << y
		case int32:
			return x.(int32) << y
		case int64:
			return x.(int64) << y
		case uint:
			return x.(uint) << y
		case uint8:
			return x.(uint8) << y
		case uint16:
			return x.(uint16) << y
		case uint32:
			return x.(uint32) << y
		case uint64:
			return x.(uint64) << y
		case uintptr:
			return x.(uintptr) << y
		}

	case token.SHR:
		u, ok := asUnsigned(y)
		if !ok {
			panic("negative shift amount")
		}
		y := asUint64(u)
		switch x.(type) {
		case int:
			return x.(int) >> y
		case int8:
			return x.(int8) >> y
		case int16:
			return x.(int16) >> y
		case int32:
			return x.(int32) >> y
		case int64:
			return x.(int64) >> y
		case uint:
			return x.(uint) >> y
		case uint8:
			return x.(uint8) >> y
		case uint16:
			return x.(uint16) >> y
		case uint32:
			return x.(uint32) >> y
		case uint64:
			return x.(uint64) >> y
		case uintptr:
			return x.(uintptr) >> y
		}

	case token.LSS:
		switch x.(type) {
		case int:
			return x.(int) < y.(int)
		case int8:
			return x.(int8) < y.(int8)
		case int16:
			return x.(int16) < y.(int16)
		case int32:
			return x.(int32) < y.(int32)
		case int64:
			return x.(int64) < y.(int64)
		case uint:
			return x.(uint) < y.(uint)
		case uint8:
			return x.(uint8) < y.(uint8)
		case uint16:
			return x.(uint16) < y.(uint16)
		case uint32:
			return x.(uint32) < y.(uint32)
		case uint64:
			return x.(uint64) < y.(uint64)
		case uintptr:
			return x.(uintptr) < y.(uintptr)
		case float32:
			return x.(float32) < y.(float32)
		case float64:
			return x.(float64) < y.(float64)
		case string:
			return x.(string) < y.(string)
		}

	case token.LEQ:
		switch x.(type) {
		case int:
			return x.(int) <= y.(int)
		case int8:
			return x.(int8) <= y.(int8)
		case int16:
			return x.(int16) <= y.(int16)
		case int32:
			return x.(int32) <= y.(int32)
		case int64:
			return x.(int64) <= y.(int64)
		case uint:
			return x.(uint) <= y.(uint)
		case uint8:
			return x.(uint8) <= y.(uint8)
		case uint16:
			return x.(uint16) <= y.(uint16)
		case uint32:
			return x.(uint32) <= y.(uint32)
		case uint64:
			return x.(uint64) <= y.(uint64)
		case uintptr:
			return x.(uintptr) <= y.(uintptr)
		case float32:
			return x.(float32) <= y.(float32)
		case float64:
			return x.(float64) <= y.(float64)
		case string:
			return x.(string) <= y.(string)
		}

	case token.EQL:
		return eqnil(t, x, y)

	case token.NEQ:
		return !eqnil(t, x, y)

	case token.GTR:
		switch x.(type) {
		case int:
			return x.(int) > y.(int)
		case int8:
			return x.(int8) > y.(int8)
		case int16:
			return x.(int16) > y.(int16)
		case int32:
			return x.(int32) > y.(int32)
		case int64:
			return x.(int64) > y.(int64)
		case uint:
			return x.(uint) > y.(uint)
		case uint8:
			return x.(uint8) > y.(uint8)
		case uint16:
			return x.(uint16) > y.(uint16)
		case uint32:
			return x.(uint32) > y.(uint32)
		case uint64:
			return x.(uint64) > y.(uint64)
		case uintptr:
			return x.(uintptr) > y.(uintptr)
		case float32:
			return x.(float32) > y.(float32)
		case float64:
			return x.(float64) > y.(float64)
		case string:
			return x.(string) > y.(string)
		}

	case token.GEQ:
		switch x.(type) {
		case int:
			return x.(int) >= y.(int)
		case int8:
			return x.(int8) >= y.(int8)
		case int16:
			return x.(int16) >= y.(int16)
		case int32:
			return x.(int32) >= y.(int32)
		case int64:
			return x.(int64) >= y.(int64)
		case uint:
			return x.(uint) >= y.(uint)
		case uint8:
			return x.(uint8) >= y.(uint8)
		case uint16:
			return x.(uint16) >= y.(uint16)
		case uint32:
			return x.(uint32) >= y.(uint32)
		case uint64:
			return x.(uint64) >= y.(uint64)
		case uintptr:
			return x.(uintptr) >= y.(uintptr)
		case float32:
			return x.(float32) >= y.(float32)
		case float64:
			return x.(float64) >= y.(float64)
		case string:
			return x.(string) >= y.(string)
		}
	}
	panic(fmt.Sprintf("invalid binary op: %T %s %T", x, op, y))
}

// eqnil returns the comparison x == y using the equivalence relation
// appropriate for type t.
// If t is a reference type, at most one of x or y may be a nil value
// of that type.
func eqnil(t types.Type, x, y value) bool {
	switch t.Underlying().(type) {
	case *types.Map, *types.Signature, *types.Slice:
		// Since these types don't support comparison,
		// one of the operands must be a literal nil.
		switch x := x.(type) {
		case *hashmap:
			return (x != nil) == (y.(*hashmap) != nil)
		case map[value]value:
			return (x != nil) == (y.(map[value]value) != nil)
		case *ssa.Function:
			switch y := y.(type) {
			case *ssa.Function:
				return (x != nil) == (y != nil)
			case *closure:
				return true
			}
		case *closure:
			return (x != nil) == (y.(*ssa.Function) != nil)
		case nativeFn:
			return false
		case []value:
			return (x != nil) == (y.([]value) != nil)
		}
		panic(fmt.Sprintf("eqnil(%s): illegal dynamic type: %T", t, x))
	}

	return equals(t, x, y)
}

func unop(instr *ssa.UnOp, x value) value {
	switch instr.Op {
	case token.ARROW: // receive: handled in visitInstr
		panic("unop ARROW")
	case token.SUB:
		if sv, ok := x.(symv); ok {
			w, sg := intInfo(instr.X.Type())
			return symv{'i', normInt("(bvneg "+sv.term+")", w, sg)}
		}
		switch x := x.(type) {
		case int:
			return -x
		case int8:
			return -x
		case int16:
			return -x
		case int32:
			return -x
		case int64:
			return -x
		case uint:
			return -x
		case uint8:
			return -x
		case uint16:
			return -x
		case uint32:
			return -x
		case uint64:
			return -x
		case uintptr:
			return -x
		case float32:
			return -x
		case float64:
			return -x
		case complex64:
			return -x
		case complex128:
			return -x
		}
	case token.MUL:
		return load(typeparams.MustDeref(instr.X.Type()), x.(*value))
	case token.NOT:
		if sv, ok := x.(symv); ok {
			return symv{'b', "(not " + sv.term + ")"}
		}
		return !x.(bool)
	case token.XOR:
		if sv, ok := x.(symv); ok {
			w, sg := intInfo(instr.X.Type())
			return symv{'i', normInt("(bvnot "+sv.term+")", w, sg)}
		}
		switch x := x.(type) {
		case int:
			return ^x
		case int8:
			return ^x
		case int16:
			return ^x
		case int32:
			return ^x
		case int64:
			return ^x
		case uint:
			return ^x
		case uint8:
			return ^x
		case uint16:
			return ^x
		case uint32:
			return ^x
		case uint64:
			return ^x
		case uintptr:
			return ^x
		}
	}
	panic(fmt.Sprintf("invalid unary op %s %T", instr.Op, x))
}

// typeAssert checks whether dynamic type of itf is instr.AssertedType.
// It returns the extracted value on success, and panics on failure,
// unless instr.CommaOk, in which case it always returns a "value,ok" tuple.
func typeAssert(i *interpreter, instr *ssa.TypeAssert, itf iface) value {
	var v value
	err := ""
	if itf.t == nil {
		err = fmt.Sprintf("interface conversion: interface is nil, not %s", instr.AssertedType)

	} else if idst, ok := instr.AssertedType.Underlying().(*types.Interface); ok {
		v = itf
		err = checkInterface(i, idst, itf)

	} else if types.Identical(itf.t, instr.AssertedType) {
		v = itf.v // extract value

	} else {
		err = fmt.Sprintf("interface conversion: interface is %s, not %s", itf.t, instr.AssertedType)
	}
	// Note: if instr.Underlying==true ever becomes reachable from interp check that
	// types.Identical(itf.t.Underlying(), instr.AssertedType)

	if err != "" {
		if !instr.CommaOk {
			panic(err)
		}
		return tuple{zero(instr.AssertedType), false}
	}
	if instr.CommaOk {
		return tuple{v, true}
	}
	return v
}

// This variable is no longer used but remains to prevent build breakage.
var CapturedOutput *bytes.Buffer

// callBuiltin interprets a call to builtin fn with arguments args,
// returning its result.
func callBuiltin(caller *frame, callpos token.Pos, fn *ssa.Builtin, args []value) value {
	switch fn.Name() {
	case "append":
		if len(args) == 1 {
			return args[0]
		}
		if ss, ok := args[1].(symstr); ok {
			// append([]byte, ...string) with symbolic bytes
			arg0, _ := args[0].([]value)
			return append(arg0, ss.b...)
		}
		if s, ok := args[1].(string); ok {
			// append([]byte, ...string) []byte
			arg0 := args[0].([]value)
			for i := 0; i < len(s); i++ {
				arg0 = append(arg0, s[i])
			}
			return arg0
		}
		// append([]T, ...[]T) []T
		return append(args[0].([]value), args[1].([]value)...)

	case "copy": // copy([]T, []T) int or copy([]byte, string) int
		src := args[1]
		if ss, ok := src.(symstr); ok {
			return copy(args[0].([]value), ss.b)
		}
		if _, ok := src.(string); ok {
			params := fn.Type().(*types.Signature).Params()
			src = conv(params.At(0).Type(), params.At(1).Type(), src)
		}
		return copy(args[0].([]value), src.([]value))

	case "close": // close(chan T)
		caller.i.R.S.chanClose(args[0].(*vchan))
		return nil

	case "delete": // delete(map[K]value, K)
		switch m := args[0].(type) {
		case map[value]value:
			delete(m, args[1])
		case *hashmap:
			m.delete(args[1].(hashable))
		default:
			panic(fmt.Sprintf("illegal map type: %T", m))
		}
		return nil

	case "print", "println": // print(any, ...)
		ln := fn.Name() == "println"
		var buf bytes.Buffer
		for i, arg := range args {
			if i > 0 && ln {
				buf.WriteRune(' ')
			}
			buf.WriteString(toString(arg))
		}
		if ln {
			buf.WriteRune('\n')
		}
		os.Stderr.Write(buf.Bytes())
		return nil

	case "len":
		switch x := args[0].(type) {
		case *absSlice:
			return x.len
		case symv:
			return symv{'i', "((_ int2bv 64) (str.len " + x.term + "))"}
		case symstr:
			return len(x.b)
		case string:
			return len(x)
		case array:
			return len(x)
		case *value:
			return len((*x).(array))
		case []value:
			return len(x)
		case map[value]value:
			return len(x)
		case *hashmap:
			return x.len()
		case *vchan:
			return len(x.buf)
		default:
			panic(fmt.Sprintf("len: illegal operand: %T", x))
		}

	case "cap":
		switch x := args[0].(type) {
		case array:
			return cap(x)
		case *value:
			return cap((*x).(array))
		case []value:
			return cap(x)
		case *vchan:
			return x.cap
		default:
			panic(fmt.Sprintf("cap: illegal operand: %T", x))
		}

	case "min", "max":
		// symbolic operands: decide the comparison like a branch (the path forks on it)
		anySym := false
		for _, a := range args {
			if _, ok := a.(symv); ok {
				anySym = true
			}
		}
		if anySym {
			op := token.LSS
			if fn.Name() == "max" {
				op = token.GTR
			}
			x := args[0]
			for _, y := range args[1:] {
				var ot types.Type = types.Typ[types.Int]
				if sig, ok := fn.Type().(*types.Signature); ok && sig.Results().Len() == 1 {
					ot = sig.Results().At(0).Type()
				}
				c := caller.i.R.binopChecked(op, ot, y, x)
				var take bool
				if sv, ok := c.(symv); ok {
					take = caller.i.R.branch(sv)
				} else {
					take = c.(bool)
				}
				if take {
					x = y
				}
			}
			return x
		}
		if fn.Name() == "min" {
			return foldLeft(min, args)
		}
		return foldLeft(max, args)

	case "real":
		switch c := args[0].(type) {
		case complex64:
			return real(c)
		case complex128:
			return real(c)
		default:
			panic(fmt.Sprintf("real: illegal operand: %T", c))
		}

	case "imag":
		switch c := args[0].(type) {
		case complex64:
			return imag(c)
		case complex128:
			return imag(c)
		default:
			panic(fmt.Sprintf("imag: illegal operand: %T", c))
		}

	case "complex":
		switch f := args[0].(type) {
		case float32:
			return complex(f, args[1].(float32))
		case float64:
			return complex(f, args[1].(float64))
		default:
			panic(fmt.Sprintf("complex: illegal operand: %T", f))
		}

	case "panic":
		// ssa.Panic handles most cases; this is only for "go
		// panic" or "defer panic".
		panic(targetPanic{args[0]})

	case "recover":
		return doRecover(caller)

	case "ssa:wrapnilchk":
		recv := args[0]
		if recv.(*value) == nil {
			recvType := args[1]
			methodName := args[2]
			panic(fmt.Sprintf("value method (%s).%s called using nil *%s pointer",
				recvType, methodName, recvType))
		}
		return recv

	case "ssa:deferstack":
		return &caller.defers
	}

	panic("unknown built-in: " + fn.Name())
}

func rangeIter(r *Run, x value, t types.Type, sym bool) iter {
	switch x := x.(type) {
	case map[value]value:
		var keys []value
		for k := range x {
			keys = append(keys, k)
		}
		sort.Slice(keys, func(i, j int) bool { return toString(keys[i]) < toString(keys[j]) })
		return &chooseIter{r: r, sym: sym, m: x, keys: keys}
	case *hashmap:
		var ents []*entry
		for _, e := range x.entries() {
			for ; e != nil; e = e.next {
				ents = append(ents, e)
			}
		}
		sort.Slice(ents, func(i, j int) bool { return toString(ents[i].key) < toString(ents[j].key) })
		return &hashmapIter{r: r, sym: sym, ents: ents}
	case string:
		return &stringIter{Reader: strings.NewReader(x)}
	case symstr:
		return &symstrIter{s: x}
	}
	panic(fmt.Sprintf("cannot range over %T", x))
}

// widen widens a basic typed value x to the widest type of its
// category, one of:
//
//	bool, int64, uint64, float64, complex128, string.
//
// This is inefficient but reduces the size of the cross-product of
// cases we have to consider.
func widen(x value) value {
	switch y := x.(type) {
	case bool, int64, uint64, float64, complex128, string, unsafe.Pointer:
		return x
	case int:
		return int64(y)
	case int8:
		return int64(y)
	case int16:
		return int64(y)
	case int32:
		return int64(y)
	case uint:
		return uint64(y)
	case uint8:
		return uint64(y)
	case uint16:
		return uint64(y)
	case uint32:
		return uint64(y)
	case uintptr:
		return uint64(y)
	case float32:
		return float64(y)
	case complex64:
		return complex128(y)
	}
	panic(fmt.Sprintf("cannot widen %T", x))
}

// conv converts the value x of type t_src to type t_dst and returns
// the result.
// Possible cases are described with the ssa.Convert operator.
func conv(t_dst, t_src types.Type, x value) value {
	if sv, ok := x.(symv); ok {
		return symConv(t_dst, t_src, sv)
	}
	ut_src := t_src.Underlying()
	ut_dst := t_dst.Underlying()
	if ss, ok := x.(symstr); ok {
		switch d := ut_dst.(type) {
		case *types.Basic:
			return x
		case *types.Slice:
			if d.Elem().Underlying().(*types.Basic).Kind() == types.Byte {
				return append([]value{}, ss.b...)
			}
			// []rune of an ASCII string
			res := make([]value, len(ss.b))
			for i, b := range ss.b {
				if c, ok := b.(byte); ok {
					res[i] = rune(c)
				} else {
					res[i] = b
				}
			}
			return res
		}
	}

	// Destination type is not an "untyped" type.
	if b, ok := ut_dst.(*types.Basic); ok && b.Info()&types.IsUntyped != 0 {
		panic("oops: conversion to 'untyped' type: " + b.String())
	}

	// Nor is it an interface type.
	if _, ok := ut_dst.(*types.Interface); ok {
		if _, ok := ut_src.(*types.Interface); ok {
			panic("oops: Convert should be ChangeInterface")
		} else {
			panic("oops: Convert should be MakeInterface")
		}
	}

	// Remaining conversions:
	//    + untyped string/number/bool constant to a specific
	//      representation.
	//    + conversions between non-complex numeric types.
	//    + conversions between complex numeric types.
	//    + integer/[]byte/[]rune -> string.
	//    + string -> []byte/[]rune.
	//
	// All are treated the same: first we extract the value to the
	// widest representation (int64, uint64, float64, complex128,
	// or string), then we convert it to the desired type.

	switch ut_src := ut_src.(type) {
	case *types.Pointer:
		switch ut_dst := ut_dst.(type) {
		case *types.Basic:
			// *value to unsafe.Pointer?
			if ut_dst.Kind() == types.UnsafePointer {
				return unsafe.Pointer(x.(*value))
			}
		}

	case *types.Slice:
		// []byte or []rune -> string
		switch ut_src.Elem().Underlying().(*types.Basic).Kind() {
		case types.Byte:
			x := x.([]value)
			return mkStr(append([]value{}, x...))

		case types.Rune:
			x := x.([]value)
			r := make([]rune, 0, len(x))
			for i := range x {
				r = append(r, x[i].(rune))
			}
			return string(r)
		}

	case *types.Basic:
		x = widen(x)

		// integer -> string?
		if ut_src.Info()&types.IsInteger != 0 {
			if ut_dst, ok := ut_dst.(*types.Basic); ok && ut_dst.Kind() == types.String {
				return fmt.Sprintf("%c", x)
			}
		}

		// string -> []rune, []byte or string?
		if s, ok := x.(string); ok {
			switch ut_dst := ut_dst.(type) {
			case *types.Slice:
				var res []value
				switch ut_dst.Elem().Underlying().(*types.Basic).Kind() {
				case types.Rune:
					for _, r := range []rune(s) {
						res = append(res, r)
					}
					return res
				case types.Byte:
					for _, b := range []byte(s) {
						res = append(res, b)
					}
					return res
				}
			case *types.Basic:
				if ut_dst.Kind() == types.String {
					return x.(string)
				}
			}
			break // fail: no other conversions for string
		}

		// unsafe.Pointer -> *value
		if ut_src.Kind() == types.UnsafePointer {
			// TODO(adonovan): this is wrong and cannot
			// really be fixed with the current design.
			//
			// return (*value)(x.(unsafe.Pointer))
			// creates a new pointer of a different
			// type but the underlying interface value
			// knows its "true" type and so cannot be
			// meaningfully used through the new pointer.
			//
			// To make this work, the interpreter needs to
			// simulate the memory layout of a real
			// compiled implementation.
			//
			// To at least preserve type-safety, we'll
			// just return the zero value of the
			// destination type.
			return zero(t_dst)
		}

		// Conversions between complex numeric types?
		if ut_src.Info()&types.IsComplex != 0 {
			switch ut_dst.(*types.Basic).Kind() {
			case types.Complex64:
				return complex64(x.(complex128))
			case types.Complex128:
				return x.(complex128)
			}
			break // fail: no other conversions for complex
		}

		// Conversions between non-complex numeric types?
		if ut_src.Info()&types.IsNumeric != 0 {
			kind := ut_dst.(*types.Basic).Kind()
			switch x := x.(type) {
			case int64: // signed integer -> numeric?
				switch kind {
				case types.Int:
					return int(x)
				case types.Int8:
					return int8(x)
				case types.Int16:
					return int16(x)
				case types.Int32:
					return int32(x)
				case types.Int64:
					return int64(x)
				case types.Uint:
					return uint(x)
				case types.Uint8:
					return uint8(x)
				case types.Uint16:
					return uint16(x)
				case types.Uint32:
					return uint32(x)
				case types.Uint64:
					return uint64(x)
				case types.Uintptr:
					return uintptr(x)
				case types.Float32:
					return float32(x)
				case types.Float64:
					return float64(x)
				}

			case uint64: // unsigned integer -> numeric?
				switch kind {
				case types.Int:
					return int(x)
				case types.Int8:
					return int8(x)
				case types.Int16:
					return int16(x)
				case types.Int32:
					return int32(x)
				case types.Int64:
					return int64(x)
				case types.Uint:
					return uint(x)
				case types.Uint8:
					return uint8(x)
				case types.Uint16:
					return uint16(x)
				case types.Uint32:
					return uint32(x)
				case types.Uint64:
					return uint64(x)
				case types.Uintptr:
					return uintptr(x)
				case types.Float32:
					return float32(x)
				case types.Float64:
					return float64(x)
				}

			case float64: // floating point -> numeric?
				switch kind {
				case types.Int:
					return int(x)
				case types.Int8:
					return int8(x)
				case types.Int16:
					return int16(x)
				case types.Int32:
					return int32(x)
				case types.Int64:
					return int64(x)
				case types.Uint:
					return uint(x)
				case types.Uint8:
					return uint8(x)
				case types.Uint16:
					return uint16(x)
				case types.Uint32:
					return uint32(x)
				case types.Uint64:
					return uint64(x)
				case types.Uintptr:
					return uintptr(x)
				case types.Float32:
					return float32(x)
				case types.Float64:
					return float64(x)
				}
			}
		}
	}

	panic(fmt.Sprintf("unsupported conversion: %s  -> %s, dynamic type %T", t_src, t_dst, x))
}

// sliceToArrayPointer converts the value x of type slice to type t_dst
// a pointer to array and returns the result.
func sliceToArrayPointer(t_dst, t_src types.Type, x value) value {
	if _, ok := t_src.Underlying().(*types.Slice); ok {
		if ptr, ok := t_dst.Underlying().(*types.Pointer); ok {
			if arr, ok := ptr.Elem().Underlying().(*types.Array); ok {
				x := x.([]value)
				if arr.Len() > int64(len(x)) {
					panic("array length is greater than slice length")
				}
				if x == nil {
					return zero(t_dst)
				}
				v := value(array(x[:arr.Len()]))
				return &v
			}
		}
	}

	panic(fmt.Sprintf("unsupported conversion: %s  -> %s, dynamic type %T", t_src, t_dst, x))
}

// checkInterface checks that the method set of x implements the
// interface itype.
// On success it returns "", on failure, an error message.
func checkInterface(i *interpreter, itype *types.Interface, x iface) string {
	if meth, _ := types.MissingMethod(x.t, itype, true); meth != nil {
		return fmt.Sprintf("interface conversion: %v is not %v: missing method %s",
			x.t, itype, meth.Name())
	}
	return "" // ok
}

func foldLeft(op func(value, value) value, args []value) value {
	x := args[0]
	for _, arg := range args[1:] {
		x = op(x, arg)
	}
	return x
}

func min(x, y value) value {
	switch x := x.(type) {
	case float32:
		return fmin(x, y.(float32))
	case float64:
		return fmin(x, y.(float64))
	}

	// return (y < x) ? y : x
	if binop(token.LSS, nil, y, x).(bool) {
		return y
	}
	return x
}

func max(x, y value) value {
	switch x := x.(type) {
	case float32:
		return fmax(x, y.(float32))
	case float64:
		return fmax(x, y.(float64))
	}

	// return (y > x) ? y : x
	if binop(token.GTR, nil, y, x).(bool) {
		return y
	}
	return x
}

// copied from $GOROOT/src/runtime/minmax.go

type floaty interface{ ~float32 | ~float64 }

func fmin[F floaty](x, y F) F {
	if y != y || y < x {
		return y
	}
	if x != x || x < y || x != 0 {
		return x
	}
	// x and y are both ±0
	// if either is -0, return -0; else return +0
	return forbits(x, y)
}

func fmax[F floaty](x, y F) F {
	if y != y || y > x {
		return y
	}
	if x != x || x > y || x != 0 {
		return x
	}
	// x and y are both ±0
	// if both are -0, return -0; else return +0
	return fandbits(x, y)
}

func forbits[F floaty](x, y F) F {
	switch unsafe.Sizeof(x) {
	case 4:
		*(*uint32)(unsafe.Pointer(&x)) |= *(*uint32)(unsafe.Pointer(&y))
	case 8:
		*(*uint64)(unsafe.Pointer(&x)) |= *(*uint64)(unsafe.Pointer(&y))
	}
	return x
}

func fandbits[F floaty](x, y F) F {
	switch unsafe.Sizeof(x) {
	case 4:
		*(*uint32)(unsafe.Pointer(&x)) &= *(*uint32)(unsafe.Pointer(&y))
	case 8:
		*(*uint64)(unsafe.Pointer(&x)) &= *(*uint64)(unsafe.Pointer(&y))
	}
	return x
}

// symstrIter ranges over a byte-vector string (bytes are ASCII by construction).
type symstrIter struct {
	s symstr
	i int
}

func (it *symstrIter) next() tuple {
	if it.i >= len(it.s.b) {
		return tuple{false, -1, nil}
	}
	b := it.s.b[it.i]
	var r value = b
	if c, ok := b.(byte); ok {
		r = rune(c)
	}
	it.i++
	return tuple{true, it.i - 1, r}
}
