
PROPS["C15"] = {
    "harnesses": [
        {"pkg": "loader", "name": "VerifC15_Env", "quick": {}, "thorough": {},
         "bounds": {"base entries": "<=2", "override entries": "<=1", "keys": "{A,B}", "values": "every byte string over {'=','x'} of length <=3"}},
    ],
    "stubs": ["mergo.Map on two flat maps: override wins by key (natively the real mergo runs)"],
    "assumptions": ["mergo's reflective deep merge of ProcessConfig is trusted (third party)", "YAML decoding outside"],
}
