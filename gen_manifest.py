#!/usr/bin/python3
"""Regenerates MANIFEST.json from props.py (checks) and the static parts below."""
import json, subprocess, sys
sys.path.insert(0, "/verif")
from props import PROPS, LEVELS, NOT_APPLICABLE

hooks_commits = ["48b8bb4"]
m = {
 "version": 1,
 "setup_cmd": "cd /verif/engine && GOFLAGS=-mod=mod GOPROXY=off GOSUMDB=off GOTOOLCHAIN=local go build -o /verif/bin/symgo ./cmd/symgo",
 "hooks": {
  "guard": "verif",
  "enable": "go build/test -tags verif; harnesses are injected with -overlay (go test) / packages.Config.Overlay (symgo loads /repo with BuildFlags=-tags=verif)",
  "baseline_off_cmd": "cd /repo && GOFLAGS=-mod=mod GOPROXY=off go test -vet=off -count=1 ./...",
  "source_commits": hooks_commits,
  "add_only": True,
 },
 "engines": [{"name": "symgo", "path": "/verif/engine", "serves_properties": sorted(PROPS),
              "kind_free_text": "bounded symbolic execution of the go/ssa form of /repo's working tree (fork of x/tools go/ssa/interp: symbolic bit-vector/Bool/String scalars, byte-vector strings, choice-prefix DFS over branches / map orders / schedules, one z3 -in per worker, delay-bounded baton scheduler with virtual time); counterexamples replayed natively with go test -tags verif -overlay"}],
 "checks": [],
 "not_applicable": NOT_APPLICABLE,
 "notes": "All checks: ./check <id> <tier>. Exit 0 = held on everything explored (KNOWN-FINDING lines for listed findings), 1 = VIOLATION (natively replayed), 3 = inconclusive (solver unknown / unwinding / unsupported construct / counterexample not reproduced natively). known_findings.json is never written at run time. A harness file that does not compile against the tree (a private identifier it enters through was renamed) is left out and reported as 'REDUCED property=<id>: ...' (evidence: harnesses_left_out); the exit code then refers to the harnesses that ran, and is 3 if none did.",
}
for n in range(1, 21):
    pid = "C%02d" % n
    if pid not in PROPS and pid not in [x["property_id"] for x in NOT_APPLICABLE]:
        m["not_applicable"] = m["not_applicable"] + [{"property_id": pid, "reason": "no check registered in this revision (harness not finished); not claimed"}]
for pid in sorted(PROPS):
    lv = LEVELS[pid]
    m["checks"].append({
        "property_id": pid,
        "quick_cmd": f"./check {pid} quick",
        "thorough_cmd": f"./check {pid} thorough",
        "evidence_file": f"/verif/evidence/{pid}.json",
        "replay_cmd_template": "./check replay {path}",
        "engine": "symgo",
        "level_claimed": {"category": "model_checking", "text": lv["text"], "design_ref": lv.get("ref", "DESIGN.md section 7")},
        "level_note": lv["note"],
        "technique": lv.get("technique", "bounded symbolic execution of the real SSA with an SMT solver (z3) deciding every branch and assertion; native replay of counterexamples"),
    })
json.dump(m, open("/verif/MANIFEST.json", "w"), indent=1)
print("MANIFEST.json:", len(m["checks"]), "checks")
