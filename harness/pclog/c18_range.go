//go:build verif

package pclog

// C18: window arithmetic of GetLogRange for every buffer length, offset and limit.
// Reference window (API: offset counted from the end, limit 0 = up to the end):
//   o = clamp(offset, 0, n); start = n-o; count = (limit>=1 && limit<o) ? limit : o.
func VerifC18_Range() {
	n := verifInt("len")
	verifAssume(verifAnd(n >= 0, n <= 1100))
	b := &ProcessLogBuffer{size: 1000, buffer: verifAbstractStrings("buf", n, 1100)}
	off, lim := verifInt("offset"), verifInt("limit")
	if lim > 0 {
		verifShape("limit>0")
	} else {
		verifShape("limit<=0")
	}
	got := b.GetLogRange(off, lim) // REAL code; a panic ends the path as a violation
	o := verifIteInt(off < 0, 0, verifIteInt(off > n, n, off))
	k := verifIteInt(verifAnd(lim >= 1, lim < o), lim, o)
	verifObserveInt("len(got)", len(got))
	verifAssert("window.len", len(got) == k)
	if n > 0 {
		verifObserveInt("start", verifSliceStart(got))
		verifAssert("window.start", verifSliceStart(got) == n-o)
	}
	verifReach("end")
}
