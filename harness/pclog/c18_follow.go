//go:build verif

package pclog

import (
	"strconv"
)

// the bound the statement allows on top of the configured length ("never unboundedly more"):
// the documented trimming granularity of 100 lines. It is the harness's own constant - the
// implementation's way of getting there is not referenced.
const verifSlack = 100

// C18 (one step of the buffer from boundary states): after one Write the buffer holds the most
// recent lines in order, at least min(written, size) of them, never more than size+100.
func VerifC18_Write() {
	verifUnwind(256) // the harness itself loops over size+100 lines
	size := verifIntRange("size", 0, 3)
	// pre-state: n lines already held, n chosen around the trimming boundary size+100
	sz := verifConcretize(size)
	ns := []int{0, 1, sz, sz + verifSlack - 1, sz + verifSlack}
	n := ns[verifChoose(len(ns))]
	b := NewLogBuffer(sz) // REAL constructor
	b.size = size         // (the same value, kept symbolic for the branch conditions of Write)
	for i := 0; i < n; i++ {
		b.buffer = append(b.buffer, "m"+strconv.Itoa(i))
	}
	before := append([]string{}, b.buffer...)
	b.Write("new") // REAL code
	got := b.buffer
	verifObserveInt("len.after", len(got))
	verifAssert("bounded", len(got) <= sz+verifSlack)
	verifAssert("holds.at.least.size", len(got) >= sz || len(got) == n+1)
	verifAssert("last.is.newest", len(got) >= 1 && got[len(got)-1] == "new")
	// the rest is a suffix of the previous content, in order
	k := len(got) - 1
	verifAssert("suffix.fits", k <= len(before))
	if k <= len(before) {
		for i := 0; i < k; i++ {
			if got[i] != before[len(before)-k+i] {
				verifFail("previous.lines.not.preserved.in.order")
				break
			}
		}
	}
	verifReach("end")
}

type verifFollower struct {
	id      string
	tail    int
	got     []string
	setLine int
}

// the observer is the environment: it may take its time (a scheduling point) in both callbacks
func (f *verifFollower) WriteString(line string) (int, error) {
	verifYield("observer.write:" + f.id)
	f.got = append(f.got, line)
	return len(line), nil
}
func (f *verifFollower) SetLines(lines []string) {
	verifYield("observer.setlines:" + f.id)
	f.setLine++
	f.got = append(f.got, lines...)
}
func (f *verifFollower) GetTailLength() int  { return f.tail }
func (f *verifFollower) GetUniqueID() string { return f.id }

// C18 (subscription): a follower that subscribes with a tail length after j of K writes
// receives exactly that tail and then every later line once and in order - also when the
// writer runs concurrently - and nothing after it unsubscribed.
func VerifC18_Follow() {
	const K = 4
	b := NewLogBuffer(10)
	j := verifChoose(K + 1)      // subscribe after j writes
	tail := verifInt("tail")     // any tail length, also negative and oversized
	unsub := verifChoose(K + 2)  // unsubscribe after that many writes in total (K+1 = never)
	concurrent := verifChoose(2) == 1
	f := &verifFollower{id: "f1", tail: tail}
	other := &verifFollower{id: "f2", tail: 0}
	b.Subscribe(other)
	var written []string
	subscribedAt, unsubAt := -1, -1
	step := func(i int) {
		if i == j && subscribedAt < 0 {
			b.GetLogsAndSubscribe(f) // REAL code
			subscribedAt = len(written)
		}
		if i == unsub && unsubAt < 0 && subscribedAt >= 0 {
			b.UnSubscribe(f) // REAL code
			unsubAt = len(written)
		}
	}
	if concurrent {
		verifShape("concurrent")
		done := make(chan int)
		go func() {
			for i := 0; i < K; i++ {
				verifYield("writer")
				m := "w" + strconv.Itoa(i)
				b.Write(m) // REAL code
			}
			done <- 1
		}()
		verifYield("follower")
		b.GetLogsAndSubscribe(f)
		<-done
		// what the follower must have seen depends on where the subscription fell: it is the
		// tail of the lines written before it plus all later lines; check it as a property of
		// the final sequence: no gap, no duplicate, ends with the last write
		all := []string{"w0", "w1", "w2", "w3"}
		verifAssert("follower.got.a.suffix", len(f.got) <= K)
		for i := range f.got {
			if f.got[i] != all[K-len(f.got)+i] {
				verifFail("follower.sequence.has.gap.or.duplicate")
				break
			}
		}
		verifAssert("other.follower.got.everything", len(other.got) == K)
		verifReach("end")
		return
	}
	for i := 0; i < K; i++ {
		step(i)
		m := "w" + strconv.Itoa(i)
		b.Write(m) // REAL code
		written = append(written, m)
	}
	step(K)
	step(K + 1)
	if subscribedAt < 0 {
		verifAssert("never.subscribed.sees.nothing", len(f.got) == 0)
		verifReach("end")
		return
	}
	// reference
	t := verifIteInt(tail < 0, 0, verifIteInt(tail > subscribedAt, subscribedAt, tail))
	tc := verifConcretize(t)
	var want []string
	want = append(want, written[subscribedAt-tc:subscribedAt]...)
	end := len(written)
	if unsubAt >= 0 {
		end = unsubAt
	}
	want = append(want, written[subscribedAt:end]...)
	verifAssert("follower.line.count", len(f.got) == len(want))
	if len(f.got) == len(want) {
		for i := range want {
			if f.got[i] != want[i] {
				verifFail("follower.line.content")
				break
			}
		}
	}
	verifAssert("tail.delivered.once", f.setLine == 1)
	verifAssert("other.follower.got.everything", len(other.got) == K)
	verifReach("end")
}

// C18 (two writers, one follower): the stdout and the stderr reader of a process write into the same
// buffer concurrently. Whatever the interleaving - the follower may take its time inside its callback -
// a live follower sees the lines in exactly the order in which the log holds them (what a later tail or
// range request returns), each once, and every writer's own lines in the order it wrote them.
func VerifC18_TwoWriters() {
	const K = 2
	b := NewLogBuffer(10)
	f := &verifFollower{id: "f1", tail: 0}
	b.GetLogsAndSubscribe(f) // REAL code
	done := make(chan int)
	for _, w := range []string{"out", "err"} {
		w := w
		go func() {
			for i := 0; i < K; i++ {
				verifYield("writer:" + w)
				b.Write(w + strconv.Itoa(i)) // REAL code
			}
			done <- 1
		}()
	}
	<-done
	<-done
	held := b.GetLogRange(2*K, 0) // REAL code: the last 2K lines = the whole log
	verifAssert("all.lines.held", len(held) == 2*K)
	verifAssert("follower.got.every.line.once", len(f.got) == 2*K)
	if len(held) == len(f.got) {
		for i := range held {
			if held[i] != f.got[i] {
				verifFail("follower.order.differs.from.the.log")
				break
			}
		}
	}
	// per-writer order
	for _, w := range []string{"out", "err"} {
		next := 0
		for _, l := range f.got {
			if len(l) > 3 && l[:3] == w {
				if l != w+strconv.Itoa(next) {
					verifFail("writer.order.lost")
				}
				next++
			}
		}
	}
	verifReach("end")
}
