//go:build verif

package pclog

import (
	"io"
	"os"
	"strconv"
	"strings"
	"sync"

	"github.com/f1bonacc1/process-compose/src/types"
)

// vSink stands for the log file under symgo: what has been written when it is closed is what
// the file holds.
type vSink struct {
	mu         sync.Mutex
	data       []byte
	closed     bool
	afterClose int
}

func (s *vSink) Write(p []byte) (int, error) {
	s.mu.Lock()
	defer s.mu.Unlock()
	if s.closed {
		s.afterClose++
		return 0, os.ErrClosed
	}
	s.data = append(s.data, p...)
	return len(p), nil
}

func (s *vSink) Close() error {
	s.mu.Lock()
	s.closed = true
	s.mu.Unlock()
	return nil
}

var vSinkCur *vSink

func vGetWriter(l *PCLog, filePath string, config *types.LoggerConfig) (io.WriteCloser, error) {
	return vSinkCur, nil
}

// C11 (log file): every line handed to the file logger before Close is in the file once Close
// has returned - once, in order - whatever the logger configuration and however far the
// asynchronous collector had got when Close was called.
//
// The real NewLogger/Open/Info/Error/Close/runCollector and the standard library's
// bufio.Writer run; zerolog is modelled by its contract (one Write of the record per Msg);
// opening the file is replaced by a sink under symgo, natively a real file is written and read.
func VerifC11_LoggerDrain() {
	verifUnwind(400)
	sink := &vSink{}
	vSinkCur = sink
	verifBind("(*github.com/f1bonacc1/process-compose/src/pclog.PCLog).getWriter", vGetWriter)
	var cfg *types.LoggerConfig
	switch verifChooseK("logger.config", 4) {
	case 0:
		verifShape("default")
	case 1:
		verifShape("flush_each_line")
		cfg = &types.LoggerConfig{FlushEachLine: true}
	case 2:
		verifShape("no_metadata")
		cfg = &types.LoggerConfig{NoMetadata: true}
	case 3:
		verifShape("add_timestamp")
		cfg = &types.LoggerConfig{AddTimestamp: true}
	}
	path := "/verif-log/out.log"
	if verifNative() {
		dir, err := os.MkdirTemp("", "verifc11")
		if err != nil {
			verifAssume(false)
		}
		defer os.RemoveAll(dir)
		path = dir + "/out.log"
	}
	l := NewLogger()
	l.Open(path, cfg) // REAL
	n := 1 + verifChooseK("lines", 3)
	for i := 0; i < n; i++ {
		msg := "line-" + strconv.Itoa(i) + "-end"
		if i%2 == 0 {
			l.Info(msg, "proc", 0) // REAL
		} else {
			l.Error(msg, "proc", 0) // REAL
		}
		verifYield("logged:" + strconv.Itoa(i)) // the collector may or may not get to run here
	}
	l.Close() // REAL: drains the collector, flushes, closes the file
	var content string
	if verifNative() {
		b, err := os.ReadFile(path)
		if err != nil {
			verifFail("log.file.unreadable")
		}
		content = string(b)
	} else {
		sink.mu.Lock()
		content = string(sink.data)
		closed, late := sink.closed, sink.afterClose
		sink.mu.Unlock()
		verifAssert("file.closed", closed)
		verifAssert("no.write.after.the.file.was.closed", late == 0)
	}
	pos := 0
	for i := 0; i < n; i++ {
		msg := "line-" + strconv.Itoa(i) + "-end"
		if strings.Count(content, msg) != 1 {
			verifShape("line=" + strconv.Itoa(i) + "/" + strconv.Itoa(n))
			verifFail("line.not.in.the.file.exactly.once")
			break
		}
		at := strings.Index(content, msg)
		if at < pos {
			verifFail("lines.out.of.order")
			break
		}
		pos = at
	}
	verifObserveInt("lines", n)
	verifReach("end")
}
