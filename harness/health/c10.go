//go:build verif

package health

import (
	gohealth "github.com/InVisionApp/go-health/v2"
)

// C10: whatever probe parameters are configured, the effective ones are legal; and
// applying the defaults twice changes nothing.
func VerifC10_Defaults() {
	p := &Probe{
		InitialDelay:     verifInt("initial_delay"),
		PeriodSeconds:    verifInt("period"),
		TimeoutSeconds:   verifInt("timeout"),
		SuccessThreshold: verifInt("success_threshold"),
		FailureThreshold: verifInt("failure_threshold"),
	}
	p.ValidateAndSetDefaults() // REAL code
	verifObserveInt("period", p.PeriodSeconds)
	verifObserveInt("failure_threshold", p.FailureThreshold)
	verifAssert("initial_delay>=0", p.InitialDelay >= 0)
	verifAssert("period>=1", p.PeriodSeconds >= 1)
	verifAssert("timeout>=1", p.TimeoutSeconds >= 1)
	verifAssert("success_threshold>=1", p.SuccessThreshold >= 1)
	verifAssert("failure_threshold>=1", p.FailureThreshold >= 1)
	q := *p
	p.ValidateAndSetDefaults()
	verifAssert("idempotent.ints", verifAnd(verifAnd(p.InitialDelay == q.InitialDelay, p.PeriodSeconds == q.PeriodSeconds),
		verifAnd(verifAnd(p.TimeoutSeconds == q.TimeoutSeconds, p.SuccessThreshold == q.SuccessThreshold), p.FailureThreshold == q.FailureThreshold)))
	verifReach("end")
}

// C10: effective HTTP probe target: port within 1..65535 or unset, host/scheme/path non-blank.
func VerifC10_HttpDefaults() {
	// one field at a time is symbolic (the four are handled by independent statements;
	// a sum of cases instead of their product)
	h := &HttpProbe{Host: "h", Scheme: "s", Path: "/p", Port: "80"}
	switch verifChoose(4) {
	case 0:
		verifShape("host")
		h.Host = verifStrB("host", 3, " \ta")
	case 1:
		verifShape("scheme")
		h.Scheme = verifStrB("scheme", 3, " \na")
	case 2:
		verifShape("path")
		h.Path = verifStrB("path", 3, " \r/")
	case 3:
		verifShape("port")
		h.Port = verifStrB("port", 6, "+-0123456789x")
		h.NumPort = verifInt("num_port")
	}
	p := &Probe{HttpGet: h}
	p.ValidateAndSetDefaults() // REAL code
	verifObserveInt("num_port", h.NumPort)
	verifObserveStr("host", h.Host)
	verifAssert("port.legal", verifOr(h.NumPort == 0, verifAnd(h.NumPort >= 1, h.NumPort <= 65535)))
	verifAssert("host.nonblank", verifNonBlank(h.Host))
	verifAssert("scheme.nonblank", verifNonBlank(h.Scheme))
	verifAssert("path.nonblank", verifNonBlank(h.Path))
	qh := *h
	p.ValidateAndSetDefaults()
	verifAssert("idempotent.http", verifAnd(verifAnd(h.Host == qh.Host, h.Scheme == qh.Scheme),
		verifAnd(verifAnd(h.Path == qh.Path, h.Port == qh.Port), h.NumPort == qh.NumPort)))
	verifReach("end")
}

// verifNonBlank: some byte is not white space (written without the function under test).
func verifNonBlank(s string) bool {
	r := false
	for i := 0; i < len(s); i++ {
		c := s[i]
		r = verifOr(r, verifNot(verifOr(verifOr(c == ' ', c == '\t'), verifOr(verifOr(c == '\n', c == '\r'), verifOr(c == '\v', c == '\f')))))
	}
	return r
}

// C10: the fatal flag is raised exactly at the failure_threshold-th consecutive failure, the
// ok flag is the outcome of this check, and a stopped prober delivers nothing.
// go-health's contract (stubbed scheduler): OnComplete is called after every check with the
// running count of contiguous failures (reset to 0 by a success).
func VerifC10_Threshold() {
	thr := verifIntRange("failure_threshold", -1, 4)
	probe := Probe{FailureThreshold: thr, Exec: &ExecProbe{Command: "true"}}
	probe.ValidateAndSetDefaults() // as New() does
	eff := verifIteInt(thr < 1, 3, thr)
	calls := 0
	lastOk, lastFatal := false, false
	p := &Prober{probe: probe, name: "p", onCheckEndFunc: func(ok, fatal bool, _ string) {
		calls++
		lastOk, lastFatal = ok, fatal
	}}
	const K = 6
	cf := 0
	fatals := 0
	stopAt := verifIntRange("stop_at", 0, K) // the prober is stopped before check number stop_at (K = never)
	for k := 0; k < K; k++ {
		if k == stopAt {
			p.stopped.Store(true)
			verifShape("stopped")
		}
		okk := verifBool("ok")
		st := &gohealth.State{Name: "p"}
		if okk {
			cf = 0
			st.Status = "ok"
		} else {
			cf++
			st.Status = "failed"
			st.Err = "boom"
		}
		st.ContiguousFailures = int64(cf)
		before := calls
		p.healthCheckCompleted(st) // REAL code
		if k >= stopAt {
			verifAssert("stopped.silent", calls == before)
			continue
		}
		verifAssert("called.once", calls == before+1)
		verifAssert("ok.is.outcome", lastOk == okk)
		verifAssert("fatal.iff.threshold", lastFatal == (cf == eff))
		if lastFatal {
			fatals++
			verifReach("fatal")
		}
	}
	verifReach("end")
}
