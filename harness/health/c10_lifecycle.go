//go:build verif

package health

import (
	"errors"
	"time"

	gohealth "github.com/InVisionApp/go-health/v2"
)

// go-health scheduler by its contract: Start fails with ErrAlreadyRunning when active, Stop with
// ErrAlreadyStopped when not active; while active, checks run and OnComplete is called after each.
type verifHc struct {
	cfg    *gohealth.Config
	active bool
}

var verifHcs map[*gohealth.Health]*verifHc

func verifHcNew() *gohealth.Health {
	h := &gohealth.Health{}
	verifHcs[h] = &verifHc{}
	return h
}
func verifHcDisableLogging(h *gohealth.Health) {}
func verifHcAddCheck(h *gohealth.Health, cfg *gohealth.Config) error {
	verifHcs[h].cfg = cfg
	return nil
}
func verifHcStart(h *gohealth.Health) error {
	s := verifHcs[h]
	if s.active {
		return gohealth.ErrAlreadyRunning
	}
	s.active = true
	return nil
}
func verifHcStop(h *gohealth.Health) error {
	s := verifHcs[h]
	if !s.active {
		return gohealth.ErrAlreadyStopped
	}
	s.active = false
	return nil
}

// C10 (prober life cycle): once Stop() has returned no probe result has any effect any more -
// whenever the stop arrives: before the initial delay has elapsed, or after the checks began.
// Before the stop, a running prober delivers its results.
func VerifC10_Lifecycle() {
	verifHcs = map[*gohealth.Health]*verifHc{}
	// the two sentinel errors of go-health (its package initialiser is not run under symgo)
	verifSetGlobal("github.com/InVisionApp/go-health/v2", "ErrAlreadyRunning", errors.New("Healthcheck is already running - nothing to start"))
	verifSetGlobal("github.com/InVisionApp/go-health/v2", "ErrAlreadyStopped", errors.New("Healthcheck is not running - nothing to stop"))
	verifBind("github.com/InVisionApp/go-health/v2.New", verifHcNew)
	verifBind("(*github.com/InVisionApp/go-health/v2.Health).DisableLogging", verifHcDisableLogging)
	verifBind("(*github.com/InVisionApp/go-health/v2.Health).AddCheck", verifHcAddCheck)
	verifBind("(*github.com/InVisionApp/go-health/v2.Health).Start", verifHcStart)
	verifBind("(*github.com/InVisionApp/go-health/v2.Health).Stop", verifHcStop)
	delay := []int{0, 2}[verifChoose(2)]
	stopAfter := []int{0, 1, 3}[verifChoose(3)] // seconds after Start()
	if stopAfter < delay {
		verifShape("stop.during.initial.delay")
	}
	calls := 0
	p, err := New("p", Probe{Exec: &ExecProbe{Command: "true"}, InitialDelay: delay, PeriodSeconds: 1}, func(ok, fatal bool, e string) { calls++ }) // REAL code
	if err != nil || p == nil {
		verifFail("prober.not.created")
		return
	}
	deliver := func() {
		// one successful check, if the scheduler is active (natively the real scheduler does this)
		if s := verifHcs[p.hc]; s != nil && s.active && s.cfg != nil {
			s.cfg.OnComplete(&gohealth.State{Name: "p", Status: "ok"})
		}
	}
	p.Start() // REAL code (waits for the initial delay in its own goroutine, then starts the checks)
	time.Sleep(time.Duration(stopAfter)*time.Second + 500*time.Millisecond)
	if stopAfter >= delay && !verifNative() {
		before := calls
		deliver()
		verifAssert("running.prober.delivers", calls == before+1)
	}
	p.Stop() // REAL code
	after := calls
	time.Sleep(4 * time.Second) // well past the initial delay
	deliver()
	verifAssert("silent.after.stop", calls == after)
	// a stopped prober that is started again (the relaunch of its process) works again
	if verifChoose(2) == 1 {
		verifShape("started.again")
		p.Start() // REAL code
		time.Sleep(time.Duration(delay)*time.Second + 1500*time.Millisecond)
		deliver()
		verifAssert("restarted.prober.delivers", calls > after)
		p.Stop() // REAL code
		final := calls
		time.Sleep(2 * time.Second)
		deliver()
		verifAssert("silent.after.second.stop", calls == final)
	}
	verifReach("end")
}
