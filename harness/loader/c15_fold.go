//go:build verif

package loader

import (
	"os"
	"path/filepath"
	"strings"

	"dario.cat/mergo"
	"github.com/f1bonacc1/process-compose/src/command"
	"github.com/f1bonacc1/process-compose/src/types"
)

// ---- stubs (symgo only): files, YAML decoder for the lines the harness writes, and mergo's
// override contract on the fields the harness uses ----
var verifFiles map[string]string

func verifFoldReadFile(name string) ([]byte, error) {
	if t, ok := verifFiles[name]; ok {
		return []byte(t), nil
	}
	return nil, os.ErrNotExist
}
func verifFoldUnmarshal(in []byte, out interface{}) error {
	p, ok := out.(*types.Project)
	if !ok {
		return nil // some other decoding target: nothing of what the harness writes concerns it
	}
	for _, l := range strings.Split(string(in), "\n") {
		switch {
		case strings.HasPrefix(l, "log_level: "):
			p.LogLevel = l[len("log_level: "):]
		case strings.HasPrefix(l, "extends: "):
			p.ExtendsProject = l[len("extends: "):]
		case strings.HasPrefix(l, "shell: {shell_command: sh, shell_argument: "):
			// (a YAML decoder fills the struct that is already there, or makes one)
			if p.ShellConfig == nil {
				p.ShellConfig = &command.ShellConfig{}
			}
			p.ShellConfig.ShellCommand = "sh"
			p.ShellConfig.ShellArgument = strings.TrimSuffix(l[len("shell: {shell_command: sh, shell_argument: "):], "}")
		case strings.HasPrefix(l, "  svc: {command: "):
			if p.Processes == nil {
				p.Processes = types.Processes{}
			}
			p.Processes["svc"] = types.ProcessConfig{Command: strings.TrimSuffix(l[len("  svc: {command: "):], "}")}
		}
	}
	return nil
}

// mergo.Merge(dst, src, WithAppendSlice, WithOverride, transformers): non-empty values of src
// replace those of dst (contract, on the fields used here); natively the real mergo runs
func verifFoldMerge(dst, src interface{}, opts ...func(*mergo.Config)) error {
	switch d := dst.(type) {
	case *types.Project:
		s := src.(*types.Project)
		if s.LogLevel != "" {
			d.LogLevel = s.LogLevel
		}
		if s.ShellConfig != nil {
			// pointer to struct: non-empty fields of src replace those of dst
			if d.ShellConfig == nil {
				d.ShellConfig = &command.ShellConfig{}
			}
			if s.ShellConfig.ShellCommand != "" {
				d.ShellConfig.ShellCommand = s.ShellConfig.ShellCommand
			}
			if s.ShellConfig.ShellArgument != "" {
				d.ShellConfig.ShellArgument = s.ShellConfig.ShellArgument
			}
			if s.ShellConfig.ElevatedShellCmd != "" {
				d.ShellConfig.ElevatedShellCmd = s.ShellConfig.ElevatedShellCmd
			}
			if s.ShellConfig.ElevatedShellArg != "" {
				d.ShellConfig.ElevatedShellArg = s.ShellConfig.ElevatedShellArg
			}
		}
		if s.Processes != nil {
			if d.Processes == nil {
				d.Processes = types.Processes{}
			}
			merged, err := mergeProcesses(d.Processes, s.Processes)
			if err != nil {
				return err
			}
			d.Processes = merged
		}
	case *types.ProcessConfig:
		s := src.(*types.ProcessConfig)
		if s.Command != "" {
			d.Command = s.Command
		}
	}
	return nil
}

// the file loop and the fold of Load (its post-merge pipeline is the subject of C16)
func verifLoadAndMerge(opts *LoaderOptions) (*types.Project, error) {
	fileNames := make([]string, len(opts.FileNames))
	copy(fileNames, opts.FileNames)
	for idx, file := range fileNames {
		prj, err := loadProjectFromFile(file, opts) // REAL code
		if err != nil {
			return nil, err
		}
		if err = loadExtendProject(prj, opts, file, idx); err != nil { // REAL code
			return nil, err
		}
		opts.projects = append(opts.projects, prj)
	}
	return merge(opts) // REAL code
}

// C15 (fold order, extends): an extends chain gives the same result as naming the files in
// that order: later files win for single-valued options and process fields, files that do
// not mention a setting leave it alone.
func VerifC15_Fold() {
	depth := 1 + verifChoose(3) // child only / child -> parent / child -> parent -> grand
	names := []string{"child.yaml", "parent.yaml", "grand.yaml"}[:depth]
	dir := "/virtual"
	if verifNative() {
		dir, _ = os.MkdirTemp("", "verifc15")
		defer os.RemoveAll(dir)
	}
	verifFiles = map[string]string{}
	wantLevel, wantCmd, wantShellArg := "", "", ""
	// expected: fold from the most distant ancestor to the child
	for k := depth - 1; k >= 0; k-- {
		text := "version: \"0.5\"\n"
		if k+1 < depth {
			text += "extends: " + names[k+1] + "\n"
		}
		if verifChoose(2) == 1 {
			text += "log_level: L" + names[k][:1] + "\n"
			wantLevel = "L" + names[k][:1]
		}
		if verifChoose(2) == 1 {
			text += "processes:\n  svc: {command: run-" + names[k][:1] + "}\n"
			wantCmd = "run-" + names[k][:1]
		}
		if verifChoose(2) == 1 {
			// a project-level section that later files do not mention must survive them
			text += "shell: {shell_command: sh, shell_argument: -e" + names[k][:1] + "}\n"
			wantShellArg = "-e" + names[k][:1]
		}
		path := filepath.Join(dir, names[k])
		verifFiles[path] = text
		if verifNative() {
			_ = os.WriteFile(path, []byte(text), 0o600)
		}
	}
	if !verifNative() {
		verifBind("os.ReadFile", verifFoldReadFile)
		verifBind("gopkg.in/yaml.v2.Unmarshal", verifFoldUnmarshal)
		verifBind("dario.cat/mergo.Merge", verifFoldMerge)
	}
	opts := &LoaderOptions{FileNames: []string{filepath.Join(dir, names[0])}, IsInternalLoader: true, disableDotenv: true}
	prj, err := verifLoadAndMerge(opts)
	verifAssert("loads", err == nil && prj != nil)
	if prj == nil {
		return
	}
	verifObserveStr("log_level", prj.LogLevel)
	verifAssert("single.valued.option.latest.file.wins", prj.LogLevel == wantLevel)
	cmd := ""
	if pc, ok := prj.Processes["svc"]; ok {
		cmd = pc.Command
	}
	verifObserveStr("svc.command", cmd)
	verifAssert("process.field.latest.file.wins", cmd == wantCmd)
	shellArg := ""
	if prj.ShellConfig != nil {
		shellArg = prj.ShellConfig.ShellArgument
		if wantShellArg != "" {
			verifAssert("shell.command.kept", prj.ShellConfig.ShellCommand == "sh")
		}
	}
	verifObserveStr("shell.argument", shellArg)
	if wantShellArg != "" {
		verifAssert("project.level.section.latest.file.that.sets.it.wins", shellArg == wantShellArg)
	}
	// the file list is in fold order: ancestors first
	verifAssert("file.count", len(opts.FileNames) == depth)
	if len(opts.FileNames) == depth {
		for k := 0; k < depth; k++ {
			verifAssert("file.order", opts.FileNames[k] == filepath.Join(dir, names[depth-1-k]))
		}
	}
	verifReach("end")
}
