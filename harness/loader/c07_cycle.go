//go:build verif

package loader

import (
	"github.com/f1bonacc1/process-compose/src/types"
)

var verifNodeNames = []string{"p0", "p1", "p2", "p3"}

// verifGraph builds a project over n names from symbolic adjacency bits (self loops
// included) and, optionally, one edge to an undefined name.
func verifGraph(n int, withUndefined bool) (*types.Project, [][]bool, bool) {
	adj := make([][]bool, n)
	procs := types.Processes{}
	undefined := false
	for i := 0; i < n; i++ {
		adj[i] = make([]bool, n)
		deps := types.DependsOnConfig{}
		for j := 0; j < n; j++ {
			if verifBool("edge") {
				adj[i][j] = true
				deps[verifNodeNames[j]] = types.ProcessDependency{Condition: types.ProcessConditionStarted}
			}
		}
		if withUndefined && i == 0 && verifBool("undefined_edge") {
			undefined = true
			deps["zz"] = types.ProcessDependency{Condition: types.ProcessConditionStarted}
		}
		// the process that may name an undefined dependency is enabled or disabled: a dangling
		// (or cyclic) depends_on is rejected either way
		disabled := withUndefined && i == 0 && verifBool("p0_disabled")
		procs[verifNodeNames[i]] = types.ProcessConfig{Name: verifNodeNames[i], ReplicaName: verifNodeNames[i], Replicas: 1, DependsOn: deps, Disabled: disabled}
	}
	return &types.Project{Processes: procs}, adj, undefined
}

// reference: a node reaches itself in the transitive closure (Warshall)
func verifHasCycle(adj [][]bool) bool {
	n := len(adj)
	r := make([][]bool, n)
	for i := range r {
		r[i] = append([]bool{}, adj[i]...)
	}
	for k := 0; k < n; k++ {
		for i := 0; i < n; i++ {
			for j := 0; j < n; j++ {
				if r[i][k] && r[k][j] {
					r[i][j] = true
				}
			}
		}
	}
	for i := 0; i < n; i++ {
		if r[i][i] {
			return true
		}
	}
	return false
}

func verifCycleBody(n int, orders bool) {
	verifUnwind(400) // the Warshall reference: n^3 iterations
	verifSymbolicMapOrder(orders)
	p, adj, undefined := verifGraph(n, true)
	cyc := verifHasCycle(adj)
	errCycle := validateNoCircularDependencies(p) // REAL code
	errDef := validateDependencyIsEnabled(p)      // REAL code
	if cyc {
		verifReach("cyclic")
		verifAssert("cycle.rejected", errCycle != nil)
	} else {
		verifReach("acyclic")
		verifAssert("acyclic.accepted", errCycle == nil)
	}
	if undefined {
		verifReach("undefined")
		verifAssert("undefined.rejected", errDef != nil)
	} else {
		verifAssert("defined.accepted", errDef == nil)
	}
	verifReach("end")
}

// C07: cycles and dangling dependencies are rejected, everything else is accepted.
func VerifC07_Cycle3() { verifCycleBody(3, false) }

// same with every iteration order of one of the maps involved (thorough): the process table
// as validateNoCircularDependencies walks it, or the dependency maps as the depth-first
// helper reads them. (All orders of all maps at once does not exhaust in an hour.)
func VerifC07_Cycle3Orders() {
	if verifChooseK("open.order.of", 2) == 0 {
		verifSymbolicMapOrderIn("validateNoCircularDependencies")
	} else {
		verifSymbolicMapOrderIn("GetDependencies")
	}
	verifCycleBody(3, true)
}

func VerifC07_Cycle4() { verifCycleBody(4, false) }
