//go:build verif

package loader

import (
	"reflect"
	"strings"

	"dario.cat/mergo"
	"github.com/f1bonacc1/process-compose/src/types"
)

// contract of mergo.Map(&dst, src, WithOverride) on two flat maps: src wins by key.
// (natively the real mergo.Map runs)
func verifMergoMap(dst, src interface{}, opts ...func(*mergo.Config)) error {
	d := *(dst.(*map[interface{}]interface{}))
	for k, v := range src.(map[interface{}]interface{}) {
		d[k] = v
	}
	return nil
}

var verifEnvKeys = []string{"A", "B"}

func verifEnvList(tag string, max int, vlen int) (types.Environment, []string, []string) {
	n := verifChoose(max + 1)
	var env types.Environment
	var keys, vals []string
	for i := 0; i < n; i++ {
		k := verifEnvKeys[verifChoose(len(verifEnvKeys))]
		v := verifStrB(tag+".value", vlen, "=x") // arbitrary bytes over {'=', 'x'}, length 0..vlen
		env = append(env, k+"="+v)
		keys = append(keys, k)
		vals = append(vals, v)
	}
	return env, keys, vals
}

// last-wins lookup in a KEY=VALUE list, as exec does with duplicate keys
func verifEnvLookup(env []string, key string) (string, bool) {
	val, ok := "", false
	for _, e := range env {
		if strings.HasPrefix(e, key+"=") {
			val, ok = e[len(key)+1:], true
		}
	}
	return val, ok
}

func verifLastOf(keys, vals []string, key string) (string, bool) {
	val, ok := "", false
	for i := range keys {
		if keys[i] == key {
			val, ok = vals[i], true
		}
	}
	return val, ok
}

// C15: merging environment lists: by key, later file wins, everything the override does
// not mention survives byte for byte.
func VerifC15_Env() { verifEnvBody(2) }

func VerifC15_EnvDeep() { verifEnvBody(3) }

func verifEnvBody(vlen int) {
	verifBind("dario.cat/mergo.Map", verifMergoMap)
	base, bk, bv := verifEnvList("base", 2, vlen)
	over, ok, ov := verifEnvList("override", 1, vlen)
	for _, v := range append(append([]string{}, bv...), ov...) {
		if strings.Contains(v, "=") {
			verifShape("value-contains-=")
			break
		}
	}
	err := mergeSlice(toEnvVarMap, toEnvVarSlice)(reflect.ValueOf(&base).Elem(), reflect.ValueOf(over)) // REAL code
	verifAssert("no.error", err == nil)
	for _, key := range verifEnvKeys {
		want, wok := verifLastOf(ok, ov, key)
		if !wok {
			want, wok = verifLastOf(bk, bv, key)
		}
		got, gok := verifEnvLookup(base, key)
		verifAssert("key.present.iff.defined", gok == wok)
		if gok && wok {
			verifAssert("value.preserved", got == want)
		}
	}
	verifReach("end")
}
