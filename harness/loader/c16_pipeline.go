//go:build verif

package loader

import (
	"strconv"

	"github.com/f1bonacc1/process-compose/src/health"
	"github.com/f1bonacc1/process-compose/src/types"
)

// VerifPipeline runs the post-merge part of Load (mutators + render + assign), no validators.
func VerifPipeline(p *types.Project) error {
	verifApply(p, setDefaultShell, assignDefaultProcessValues, cloneReplicas, copyWorkingDirToProbes)
	if err := renderTemplates(p); err != nil {
		return err
	}
	verifApply(p, assignExecutableAndArgs)
	return nil
}

type verifC16Cfg struct {
	replicas, launchTimeout int
	namespaceSet            bool
	field                   int // which renderable field carries the replica template
	userVars                bool
}

var verifC16Fields = []string{"command", "working_dir", "log_location", "description", "readiness.exec.command", "liveness.http.path", "liveness.http.host", "readiness.http.port",
	"exec.probe.inherits.working_dir", "readiness.exec.working_dir"}

const verifTpl = "x{{.PC_REPLICA_NUM}}-{{.V}}"

func verifC16Project(c verifC16Cfg) *types.Project {
	p := types.ProcessConfig{Command: "run", Replicas: c.replicas, LaunchTimeout: c.launchTimeout}
	if c.namespaceSet {
		p.Namespace = "ns"
	}
	if c.userVars {
		p.Vars = types.Vars{"V": "local"}
	}
	switch verifC16Fields[c.field] {
	case "command":
		p.Command = verifTpl
	case "working_dir":
		p.WorkingDir = verifTpl
	case "log_location":
		p.LogLocation = verifTpl
	case "description":
		p.Description = verifTpl
	case "readiness.exec.command":
		p.ReadinessProbe = &health.Probe{Exec: &health.ExecProbe{Command: verifTpl}}
	case "liveness.http.path":
		p.LivenessProbe = &health.Probe{HttpGet: &health.HttpProbe{Path: verifTpl, Host: "h", Port: "80"}}
	case "liveness.http.host":
		p.LivenessProbe = &health.Probe{HttpGet: &health.HttpProbe{Host: verifTpl, Port: "80"}}
	case "readiness.http.port":
		p.ReadinessProbe = &health.Probe{HttpGet: &health.HttpProbe{Host: "h", Port: "80{{.PC_REPLICA_NUM}}"}}
	case "exec.probe.inherits.working_dir":
		// an exec probe without a working directory of its own runs in the process's one
		p.WorkingDir = verifTpl
		p.ReadinessProbe = &health.Probe{Exec: &health.ExecProbe{Command: "check"}}
	case "readiness.exec.working_dir":
		p.ReadinessProbe = &health.Probe{Exec: &health.ExecProbe{Command: "check", WorkingDir: verifTpl}}
	}
	// a second process that defines no local variable: it must see the global value and its
	// own replica number, whatever the first process defines
	q := types.ProcessConfig{Command: "other-{{.V}}-{{.PC_REPLICA_NUM}}", WorkingDir: "/w/{{.V}}"}
	return &types.Project{Vars: types.Vars{"V": "global"}, Processes: types.Processes{"p": p, "q": q}}
}

func verifC16Field(pc types.ProcessConfig, field int) string {
	switch verifC16Fields[field] {
	case "command":
		return pc.Command
	case "working_dir":
		return pc.WorkingDir
	case "log_location":
		return pc.LogLocation
	case "description":
		return pc.Description
	case "readiness.exec.command":
		return pc.ReadinessProbe.Exec.Command
	case "liveness.http.path":
		return pc.LivenessProbe.HttpGet.Path
	case "liveness.http.host":
		return pc.LivenessProbe.HttpGet.Host
	case "readiness.http.port":
		return pc.ReadinessProbe.HttpGet.Port
	case "exec.probe.inherits.working_dir", "readiness.exec.working_dir":
		return pc.ReadinessProbe.Exec.WorkingDir
	}
	return ""
}

// verifPipelineOrders: the same pipeline, with the map iteration order left open (a choice
// at every step) in the two loops that write per-replica data - cloneReplicas and
// renderTemplates - and sorted in the others.
func verifPipelineOrders(p *types.Project, open bool) error {
	verifSymbolicMapOrder(false)
	verifApply(p, setDefaultShell, assignDefaultProcessValues)
	verifSymbolicMapOrder(open)
	verifApply(p, cloneReplicas)
	verifSymbolicMapOrder(false)
	verifApply(p, copyWorkingDirToProbes)
	verifSymbolicMapOrder(open)
	err := renderTemplates(p)
	verifSymbolicMapOrder(false)
	if err != nil {
		return err
	}
	verifApply(p, assignExecutableAndArgs)
	return nil
}

// C16: loading is deterministic (two runs with independent map iteration orders agree),
// applies the defaults, names replicas uniquely from the replica count, and renders every
// templated field of every replica with that replica's own number and variables.
func VerifC16_Pipeline() {
	c := verifC16Cfg{
		replicas:      verifChoose(4),     // 0..3 (0 = unset)
		launchTimeout: verifChoose(3) - 1, // -1, 0 (unset), 1
		namespaceSet:  verifChoose(2) == 1,
		field:         verifChoose(len(verifC16Fields)),
		userVars:      verifChoose(2) == 1,
	}
	verifShape("field=" + verifC16Fields[c.field])
	a, b := verifC16Project(c), verifC16Project(c)
	errA := verifPipelineOrders(a, true)  // REAL code, every iteration order
	errB := verifPipelineOrders(b, false) // REAL code, reference order
	verifAssert("no.error", errA == nil && errB == nil)
	n := c.replicas
	if n == 0 {
		n = 1
	}
	verifAssert("process.count", len(a.Processes) == n+1 && len(b.Processes) == n+1)
	vname := "global"
	if c.userVars {
		vname = "local"
	}
	for i := 0; i < n; i++ {
		name := "p"
		if n > 1 {
			name = "p-" + strconv.Itoa(i)
		}
		pa, okA := a.Processes[name]
		pb, okB := b.Processes[name]
		if !okA || !okB {
			verifFail("replica.missing")
			continue
		}
		verifAssert("name", pa.Name == "p" && pa.ReplicaName == name && pa.ReplicaNum == i && pa.Replicas == n)
		verifAssert("namespace.default", pa.Namespace != "" && (c.namespaceSet || pa.Namespace == types.DefaultNamespace))
		verifAssert("launch.timeout.positive", pa.LaunchTimeout >= 1)
		verifAssert("executable.assigned", pa.Executable != "")
		want := "x" + strconv.Itoa(i) + "-" + vname
		if verifC16Fields[c.field] == "readiness.http.port" {
			want = "80" + strconv.Itoa(i)
		}
		gotA, gotB := verifC16Field(pa, c.field), verifC16Field(pb, c.field)
		verifAssert("rendered.for.own.replica", gotA == want)
		verifAssert("deterministic", gotA == gotB)
		if rn, ok := pa.Vars["PC_REPLICA_NUM"]; !ok || rn != i {
			verifFail("vars.own.replica.number")
		}
	}
	qa := a.Processes["q"]
	verifAssert("bystander", qa.Name == "q" && qa.Replicas == 1 && qa.Namespace == types.DefaultNamespace)
	verifAssert("bystander.rendered.with.its.own.variables", qa.Command == "other-global-0" && qa.WorkingDir == "/w/global")
	if v, ok := a.Vars["V"]; !ok || v != "global" {
		verifFail("global.vars.changed.by.loading")
	}
	verifReach("end")
}

// verifApply: the harness's own way of running loader steps one after another (the loader's
// helper for this is private and may change)
func verifApply(p *types.Project, steps ...func(*types.Project)) {
	for _, st := range steps {
		st(p)
	}
}
