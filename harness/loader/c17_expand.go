//go:build verif

package loader

import (
	"reflect"
	"os"
	"path/filepath"
	"strings"

	"github.com/f1bonacc1/process-compose/src/types"
)

// ---- stubs used under symgo (natively the real file, environment and YAML decoder are used) ----
var verifFileText string
var verifEnvTable map[string]string

func verifReadFile(name string) ([]byte, error) { return []byte(verifFileText), nil }
func verifGetenv(key string) string             { return verifEnvTable[key] }
func verifDotenvLoad(files ...string) error     { return nil }

// the decoder stub understands exactly the two lines the harness writes
func verifYamlUnmarshal(in []byte, out interface{}) error {
	p, isProject := out.(*types.Project)
	text := string(in)
	lines := strings.Split(text, "\n")
	if !isProject {
		// some other target (a loader may decode a part of the file into a small struct of its
		// own): fill the one flag the harness's files can set (found by its Go name)
		v := reflect.ValueOf(out)
		if v.Kind() == reflect.Ptr && v.Elem().Kind() == reflect.Struct {
			st := v.Elem()
			for i := 0; i < st.NumField(); i++ {
				f := st.Type().Field(i)
				if f.Type.Kind() == reflect.Bool && f.Name == "DisableEnvExpansion" {
					for _, l := range lines {
						if l == "disable_env_expansion: true" {
							st.Field(i).Set(reflect.ValueOf(true))
						}
					}
				}
			}
		}
		return nil
	}
	for _, l := range lines {
		if strings.HasPrefix(l, "version: \"") && strings.HasSuffix(l, "\"") {
			p.Version = l[len("version: \"") : len(l)-1]
		}
		if l == "disable_env_expansion: true" {
			p.DisableEnvExpansion = true
		}
	}
	return nil
}

// C17 (load-time expansion): $VAR and ${VAR} are replaced by the variable's value, $$ yields a
// literal $, nothing is expanded when expansion is disabled. The file holds one quoted scalar
// built from up to three tokens: literal text (symbolic, $-free), $$, $VX, ${VX}.
func VerifC17_Expand() {
	verifEnvTable = map[string]string{"VX": "val", "VY": "p$q"}
	var text, want string
	prevVar := false
	ntok := 1 + verifChoose(3)
	for i := 0; i < ntok; i++ {
		switch verifChoose(5) {
		case 0:
			lit := verifStrB("literal", 2, "a- ")
			if prevVar && len(lit) > 0 {
				verifAssume(lit[0] != 'a') // a $NAME token is not followed by a name character
			}
			text += lit
			want += lit
			if len(lit) > 0 {
				prevVar = false
			}
		case 1:
			text += "$$"
			want += "$"
			prevVar = false
		case 2:
			text += "$VX"
			want += "val"
			prevVar = true
		case 3:
			text += "${VX}"
			want += "val"
			prevVar = false
		case 4:
			text += "${VY}"
			want += "p$q" // values are not expanded again
			prevVar = false
		}
	}
	disabled := verifChoose(2) == 1
	file := "version: \"" + text + "\"\n"
	if disabled {
		verifShape("expansion.disabled")
		file += "disable_env_expansion: true\n"
		want = text
	}
	path := "/virtual/compose.yaml"
	if verifNative() {
		dir, _ := os.MkdirTemp("", "verifc17")
		defer os.RemoveAll(dir)
		path = filepath.Join(dir, "compose.yaml")
		_ = os.WriteFile(path, []byte(file), 0o600)
		os.Setenv("VX", "val")
		os.Setenv("VY", "p$q")
	} else {
		verifFileText = file
		verifBind("os.ReadFile", verifReadFile)
		verifBind("os.Getenv", verifGetenv)
		verifBind("github.com/joho/godotenv.Load", verifDotenvLoad)
		verifBind("gopkg.in/yaml.v2.Unmarshal", verifYamlUnmarshal)
	}
	prj, err := loadProjectFromFile(path, &LoaderOptions{IsInternalLoader: true, disableDotenv: true}) // REAL code
	verifAssert("loads", err == nil && prj != nil)
	if prj != nil {
		verifObserveStr("version", prj.Version)
		verifAssert("expanded.text", prj.Version == want)
	}
	verifReach("end")
}
