//go:build verif

package command

import (
	"errors"
	"os"
	"os/exec"
	"syscall"
)

type verifSigCall struct {
	kind string // "kill" | "signal"
	pid  int
	sig  int
}

var verifSigCalls []verifSigCall
var verifPgid int
var verifPgidErr bool

func verifGetpgid(pid int) (int, error) {
	if verifPgidErr {
		return -1, errors.New("no such process")
	}
	return verifPgid, nil
}
func verifKill(pid int, sig syscall.Signal) error {
	verifSigCalls = append(verifSigCalls, verifSigCall{"kill", pid, int(sig)})
	return nil
}
func verifProcSignal(p *os.Process, sig os.Signal) error {
	verifSigCalls = append(verifSigCalls, verifSigCall{"signal", p.Pid, int(sig.(syscall.Signal))})
	return nil
}

// C06 (decision kernel of the OS-level stop): the configured signal, or SIGTERM when it is
// outside 1..31, goes to the whole process group (negative pgid) - or to the parent only with
// parent_only - exactly once; SetCmdArgs puts the child into its own process group.
// Stubs: Getpgid/Kill/Process.Signal record their arguments (the kernel is outside the claim).
func VerifC06_Stop() {
	verifSigCalls = nil
	verifBind("syscall.Getpgid", verifGetpgid)
	verifBind("syscall.Kill", verifKill)
	verifBind("(*os.Process).Signal", verifProcSignal)
	sig := verifInt("signal")
	parentOnly := verifBool("parent_only")
	pid := verifIntRange("pid", 2, 1<<22)
	verifPgid = verifIntRange("pgid", 2, 1<<22)
	verifPgidErr = verifBool("getpgid_fails")
	c := &CmdWrapper{cmd: &exec.Cmd{Process: &os.Process{Pid: pid}}}

	err := c.Stop(sig, parentOnly) // REAL code

	eff := verifIteInt(verifAnd(sig >= 1, sig <= 31), sig, 15)
	if parentOnly {
		verifShape("parent_only")
		verifAssert("one.call", len(verifSigCalls) == 1)
		if len(verifSigCalls) == 1 {
			k := verifSigCalls[0]
			verifAssert("parent.signal", verifAnd(k.kind == "signal", verifAnd(k.pid == pid, k.sig == eff)))
		}
	} else if verifPgidErr {
		verifShape("getpgid_fails")
		verifAssert("error.reported", err != nil)
		verifAssert("no.call", len(verifSigCalls) == 0)
	} else {
		verifShape("group")
		verifAssert("one.call", len(verifSigCalls) == 1)
		if len(verifSigCalls) == 1 {
			k := verifSigCalls[0]
			verifAssert("group.kill", verifAnd(k.kind == "kill", verifAnd(k.pid == -verifPgid, k.sig == eff)))
		}
	}
	c2 := &CmdWrapper{cmd: &exec.Cmd{}}
	c2.SetCmdArgs() // REAL code
	verifAssert("own.process.group", verifAnd(c2.cmd.SysProcAttr != nil, c2.cmd.SysProcAttr.Setpgid))
	verifReach("end")
}
