//go:build verif

package types

import (
	"github.com/f1bonacc1/process-compose/src/command"
	"github.com/f1bonacc1/process-compose/src/health"
)

func verifCfg(t string) *ProcessConfig {
	c := &ProcessConfig{
		Name:         "p",
		ReplicaName:  "p",
		Replicas:     1,
		Environment:  Environment{verifStrAny(t+".env0", 3)},
		WorkingDir:   verifStrAny(t+".working_dir", 3),
		ReadyLogLine: verifStrAny(t+".ready_log_line", 3),
		IsDaemon:     verifBool(t + ".is_daemon"),
		IsTty:        verifBool(t + ".is_tty"),
		IsElevated:   verifBool(t + ".is_elevated"),
		RestartPolicy: RestartPolicyConfig{Restart: verifStrAny(t+".restart", 3), BackoffSeconds: verifInt(t + ".backoff"),
			MaxRestarts: verifInt(t + ".max_restarts"), ExitOnEnd: verifBool(t + ".exit_on_end"), ExitOnSkipped: verifBool(t + ".exit_on_skipped")},
		ShutDownParams: ShutDownParams{ShutDownCommand: verifStrAny(t+".shutdown_cmd", 3), ShutDownTimeout: verifInt(t + ".shutdown_timeout"),
			Signal: verifInt(t + ".signal"), ParentOnly: verifBool(t + ".parent_only")},
		DependsOn: DependsOnConfig{"dep": ProcessDependency{Condition: verifStrAny(t+".dep_condition", 3)}},
		ReadinessProbe: &health.Probe{Exec: &health.ExecProbe{Command: verifStrAny(t+".ready_cmd", 3)}, PeriodSeconds: verifInt(t + ".ready_period"),
			FailureThreshold: verifInt(t + ".ready_failure_threshold")},
		LivenessProbe: &health.Probe{HttpGet: &health.HttpProbe{Host: verifStrAny(t+".live_host", 3), Port: verifStrAny(t+".live_port", 3)},
			InitialDelay: verifInt(t + ".live_delay")},
	}
	// a second dependency is there or not (the set of dependencies is launch-relevant, not
	// only the conditions of the dependencies both configurations name)
	if verifChoose(2) == 1 {
		verifShape(t + ":two.deps")
		c.DependsOn["dep2"] = ProcessDependency{Condition: ProcessConditionCompleted}
	}
	// executable and arguments are derived by the real code from command / entrypoint,
	// as the loader and UpdateProcess do
	if verifChoose(2) == 0 {
		verifShape(t + ":command")
		c.Command = verifStrAny(t+".command", 3)
		verifAssume(c.Command != "")
	} else {
		verifShape(t + ":entrypoint")
		c.Entrypoint = []string{verifStrAny(t+".entry0", 3), verifStrAny(t+".entry1", 3), verifStrAny(t+".entry2", 3)}
	}
	c.AssignProcessExecutableAndArgs(&command.ShellConfig{ShellCommand: "sh", ShellArgument: "-c", ElevatedShellCmd: "sudo", ElevatedShellArg: "-S"}, "-S")
	return c
}

// C14 (kernel): two configurations that Compare reports as equal agree on every
// launch-relevant setting; a configuration equals itself.
func VerifC14_Compare() {
	a, b := verifCfg("a"), verifCfg("b")
	eq := a.Compare(b) // REAL code
	verifAssert("reflexive", a.Compare(a))
	if !eq {
		verifReach("different")
		return
	}
	verifReach("equal")
	verifAssert("executable", a.Executable == b.Executable)
	if len(a.Args) != len(b.Args) {
		verifFail("args.len")
	} else {
		for k := range a.Args {
			verifAssert("args", a.Args[k] == b.Args[k])
		}
	}
	verifAssert("environment", a.Environment[0] == b.Environment[0])
	verifAssert("working_dir", a.WorkingDir == b.WorkingDir)
	verifAssert("ready_log_line", a.ReadyLogLine == b.ReadyLogLine)
	verifAssert("flags", verifAnd(a.IsDaemon == b.IsDaemon, verifAnd(a.IsTty == b.IsTty, a.IsElevated == b.IsElevated)))
	ra, rb := a.RestartPolicy, b.RestartPolicy
	verifAssert("restart_policy", verifAnd(verifAnd(ra.Restart == rb.Restart, ra.BackoffSeconds == rb.BackoffSeconds),
		verifAnd(ra.MaxRestarts == rb.MaxRestarts, verifAnd(ra.ExitOnEnd == rb.ExitOnEnd, ra.ExitOnSkipped == rb.ExitOnSkipped))))
	sa, sb := a.ShutDownParams, b.ShutDownParams
	verifAssert("shutdown", verifAnd(verifAnd(sa.ShutDownCommand == sb.ShutDownCommand, sa.ShutDownTimeout == sb.ShutDownTimeout),
		verifAnd(sa.Signal == sb.Signal, sa.ParentOnly == sb.ParentOnly)))
	verifAssert("depends_on", a.DependsOn["dep"].Condition == b.DependsOn["dep"].Condition)
	verifAssert("depends_on.same.set", len(a.DependsOn) == len(b.DependsOn))
	verifAssert("readiness_probe", verifAnd(a.ReadinessProbe.Exec.Command == b.ReadinessProbe.Exec.Command,
		verifAnd(a.ReadinessProbe.PeriodSeconds == b.ReadinessProbe.PeriodSeconds, a.ReadinessProbe.FailureThreshold == b.ReadinessProbe.FailureThreshold)))
	verifAssert("liveness_probe", verifAnd(a.LivenessProbe.HttpGet.Host == b.LivenessProbe.HttpGet.Host,
		verifAnd(a.LivenessProbe.HttpGet.Port == b.LivenessProbe.HttpGet.Port, a.LivenessProbe.InitialDelay == b.LivenessProbe.InitialDelay)))
	verifReach("end")
}

func verifList(t string, n int) []string {
	var l []string
	for i := 0; i < n; i++ {
		l = append(l, verifStrAny(t+string(rune('0'+i)), 2))
	}
	return l
}

// C14 (kernel, list shapes): two configurations that differ at most in one string list
// (environment or entrypoint) of length 0..2 on either side - absent, shorter, longer, other
// content - are reported equal only if the lists, and what is derived from them, are the same.
func VerifC14_CompareLists() {
	which := verifChoose(2)
	na, nb := verifChoose(3), verifChoose(3)
	mk := func() *ProcessConfig {
		return &ProcessConfig{Name: "p", ReplicaName: "p", Replicas: 1, WorkingDir: "w"}
	}
	a, b := mk(), mk()
	la, lb := verifList("a", na), verifList("b", nb)
	if which == 0 {
		verifShape("environment")
		a.Command, b.Command = "run", "run"
		a.Environment, b.Environment = la, lb
	} else {
		verifShape("entrypoint")
		a.Entrypoint, b.Entrypoint = la, lb
	}
	sh := &command.ShellConfig{ShellCommand: "sh", ShellArgument: "-c", ElevatedShellCmd: "sudo", ElevatedShellArg: "-S"}
	a.AssignProcessExecutableAndArgs(sh, "-S")
	b.AssignProcessExecutableAndArgs(sh, "-S")
	eq := a.Compare(b) // REAL code
	if !eq {
		verifReach("different")
		// the other direction (an unchanged process keeps its instance): configurations that are
		// the same are not reported as different
		if na == nb {
			same := true
			for k := range la {
				same = verifAnd(same, la[k] == lb[k])
			}
			verifAssert("identical.configurations.reported.different", !same)
		}
		return
	}
	verifReach("equal")
	if na != nb {
		verifFail("lists.of.different.length.reported.equal")
		return
	}
	for k := range la {
		verifAssert("list.element", la[k] == lb[k])
	}
	verifAssert("executable", a.Executable == b.Executable)
	if len(a.Args) != len(b.Args) {
		verifFail("args.len")
		return
	}
	for k := range a.Args {
		verifAssert("args", a.Args[k] == b.Args[k])
	}
	verifReach("end")
}
