//go:build verif

package types

// C13/C16: replica names for a replica count n: the bare name when n is 1; otherwise for
// every 0 <= i < j < n the names differ and have equal length (uniform zero padding).
func VerifC13_Names() {
	n := 1 + verifChoose(verifNmax()) // every replica count 1..Nmax (fork; Log10 needs a concrete n)
	i := verifInt("i")
	j := verifInt("j")
	verifAssume(verifAnd(verifAnd(0 <= i, i < j), j < n+1))
	pi := &ProcessConfig{Name: "p", Replicas: n, ReplicaNum: i}
	ni := pi.CalculateReplicaName() // REAL code
	if n == 1 {
		verifShape("n=1")
		verifAssert("bare.name", ni == "p")
		verifReach("end")
		return
	}
	verifAssume(j < n)
	pj := &ProcessConfig{Name: "p", Replicas: n, ReplicaNum: j}
	nj := pj.CalculateReplicaName()
	verifObserveStr("name_i", ni)
	verifObserveStr("name_j", nj)
	verifAssert("names.differ", ni != nj)
	verifAssert("names.equal.width", len(ni) == len(nj))
	verifAssert("name.prefix", verifAnd(len(ni) >= 3, ni[0:2] == "p-"))
	verifReach("end")
}
