//go:build verif

package types

var verifNmaxValue = 128

func verifNmax() int { return verifNmaxValue }
