//go:build verif

package types

var verifNodeNames = []string{"p0", "p1", "p2", "p3"}

// C07: the dependency order lists each process that is to run exactly once with all of its
// dependencies before it (acyclic graphs; edges only from higher to lower index so that
// every generated graph is acyclic; disabled/foreground markings symbolic).
func verifOrderBody(n int, orders bool, replicated bool) {
	verifSymbolicMapOrder(orders)
	procs := Processes{}
	adj := make([][]bool, n)
	deferred := make([]bool, n)
	for i := 0; i < n; i++ {
		adj[i] = make([]bool, n)
		deps := DependsOnConfig{}
		for j := 0; j < i; j++ {
			if verifBool("edge") {
				adj[i][j] = true
				deps[verifNodeNames[j]] = ProcessDependency{Condition: ProcessConditionStarted}
			}
		}
		c := ProcessConfig{Name: verifNodeNames[i], ReplicaName: verifNodeNames[i], Replicas: 1, DependsOn: deps}
		switch verifChoose(3) {
		case 1:
			c.Disabled = true
			deferred[i] = true
		case 2:
			c.IsForeground = true
			deferred[i] = true
		}
		if replicated && i == 0 {
			// p0 has two replicas, stored under p0-0 / p0-1 and addressed by its name
			for r := 0; r < 2; r++ {
				rc := c
				rc.Replicas, rc.ReplicaNum = 2, r
				rc.ReplicaName = rc.CalculateReplicaName()
				procs[rc.ReplicaName] = rc
			}
			continue
		}
		procs[verifNodeNames[i]] = c
	}
	p := &Project{Processes: procs}
	order, err := p.GetDependenciesOrderNames() // REAL code
	verifAssert("no.error", err == nil)
	pos := map[string]int{}
	for k, name := range order {
		if _, dup := pos[name]; dup {
			verifFail("listed.twice")
		}
		pos[name] = k
	}
	keysOf := func(i int) []string {
		if replicated && i == 0 {
			return []string{"p0-0", "p0-1"}
		}
		return []string{verifNodeNames[i]}
	}
	for i := 0; i < n; i++ {
		for _, ki := range keysOf(i) {
			_, listed := pos[ki]
			verifAssert("listed.iff.not.deferred", listed == !deferred[i])
			if !listed {
				continue
			}
			for j := 0; j < n; j++ {
				if adj[i][j] {
					for _, kj := range keysOf(j) {
						if pj, ok := pos[kj]; ok {
							verifAssert("dependency.first", pj < pos[ki])
						}
					}
				}
			}
		}
	}
	verifReach("end")
}

func VerifC07_Order3() { verifOrderBody(3, true, false) }

// p0 replicated (2 replicas addressed by the process name)
func VerifC07_Order3Replicas() { verifOrderBody(3, false, true) }
func VerifC07_Order4() { verifOrderBody(4, false, false) }
