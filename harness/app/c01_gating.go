//go:build verif

package app

import (
	"strconv"
	"sync"

	"github.com/f1bonacc1/process-compose/src/health"
	"github.com/f1bonacc1/process-compose/src/types"
)

var vAllConds = []string{types.ProcessConditionCompleted, types.ProcessConditionCompletedSuccessfully, types.ProcessConditionHealthy,
	types.ProcessConditionLogReady, types.ProcessConditionStarted}

type vTruth struct {
	mu        sync.Mutex
	exited    map[string]bool // the command ended (and the process has no restart policy)
	exit0     map[string]bool
	probeOK   map[string]bool
	line      map[string]bool
	released  map[string]bool // its own dependency wait returned without error
	skipped   map[string]bool
	launched  map[string]bool
	stopAsked map[string]bool
}

func vNewTruth() *vTruth {
	return &vTruth{exited: map[string]bool{}, exit0: map[string]bool{}, probeOK: map[string]bool{}, line: map[string]bool{},
		released: map[string]bool{}, skipped: map[string]bool{}, launched: map[string]bool{}, stopAsked: map[string]bool{}}
}

// C01: no command is launched before every depends_on condition is met.
// Three processes p0,p1,p2; every acyclic edge set (edges from higher to lower index), every
// mix of the five condition types; dependencies exit with 0 / 3 or run on, print their ready
// line or not, pass or fail one readiness check. Ground truth is kept by the stub Commander,
// the probe driver and the output script; the oracle is evaluated at every launch.
func VerifC01_Gating() { verifGatingBody(false) }

// same, with process_healthy edges (readiness probe: one check, success or failure)
func VerifC01_GatingProbes() { verifGatingBody(true) }

func verifGatingBody(withHealthy bool) {
	w := vInit()
	vBindHealth()
	names := []string{"p0", "p1", "p2"}
	tr := vNewTruth()
	type edge struct{ from, to int; cond string }
	var edges []edge
	hasHealthy := false
	confs := make([]types.ProcessConfig, 3)
	for i := 0; i < 3; i++ {
		confs[i] = vConf(names[i], nil)
	}
	for i := 1; i < 3; i++ {
		for k := 0; k < i; k++ {
			c := verifChooseK("edge."+names[i]+"."+names[k], len(vAllConds)+1)
			if c == len(vAllConds) {
				continue
			}
			if vAllConds[c] == types.ProcessConditionHealthy {
				if !withHealthy {
					verifAssume(false) // plain variant: no healthy edge
				}
				hasHealthy = true
			}
			edges = append(edges, edge{i, k, vAllConds[c]})
			confs[i].DependsOn[names[k]] = types.ProcessDependency{Condition: vAllConds[c]}
		}
	}
	if withHealthy && !hasHealthy {
		verifAssume(false) // probe variant: at least one healthy edge
	}
	// what the dependency side needs, and how each dependency behaves
	for k := 0; k < 2; k++ {
		needHealthy, needLine, depended := false, false, false
		for _, e := range edges {
			if e.to == k {
				depended = true
				needHealthy = needHealthy || e.cond == types.ProcessConditionHealthy
				needLine = needLine || e.cond == types.ProcessConditionLogReady
			}
		}
		b := &vBehav{codes: []int{0}}
		if depended {
			switch verifChooseK("behaviour."+names[k], 4) {
			case 1:
				b.codes = []int{3}
			case 2:
				b.untilStop = []bool{true}
			case 3:
				b.codes = []int{-1} // ended by a signal from outside
			}
		}
		if needHealthy && !needLine {
			confs[k].ReadinessProbe = &health.Probe{Exec: &health.ExecProbe{Command: "check"}}
		}
		if needLine {
			confs[k].ReadyLogLine = "ready"
			if verifChooseK("prints.ready."+names[k], 2) == 1 {
				b.lines = []string{"booting", "now ready"}
			} else {
				b.lines = []string{"booting"}
			}
			if needHealthy {
				// readiness probe and ready_log_line are mutually exclusive (loader validator):
				// the healthy edge falls back to a liveness-only shape, which the loader rejects
				// unless a probe exists; keep the configuration valid by dropping the case
				verifAssume(false)
			}
		}
		w.behav[names[k]] = b
	}
	w.behav["p2"] = &vBehav{codes: []int{0}}
	w.onExit = func(name string, code int) {
		tr.mu.Lock()
		tr.exited[name] = true
		tr.exit0[name] = code == 0
		tr.mu.Unlock()
	}
	prevHook := VerifYieldHook
	VerifYieldHook = func(p, l string) {
		if l == "runproc.afterWaitDeps" {
			tr.mu.Lock()
			tr.released[p] = true
			tr.mu.Unlock()
		}
		prevHook(p, l)
	}
	VerifStateHook = func(proc, state string) {
		if state == types.ProcessStateSkipped || state == types.ProcessStateError {
			tr.mu.Lock()
			tr.skipped[proc] = true
			tr.mu.Unlock()
		}
	}
	vLineServed = func(name, line string) {
		if line == "now ready" {
			tr.mu.Lock()
			tr.line[name] = true
			tr.mu.Unlock()
		}
	}
	w.onStart = func(name string, attempt int) {
		tr.mu.Lock()
		defer tr.mu.Unlock()
		tr.launched[name] = true
		for _, e := range edges {
			if names[e.from] != name {
				continue
			}
			k := names[e.to]
			ok := true
			switch e.cond {
			case types.ProcessConditionCompleted:
				ok = tr.exited[k] || tr.skipped[k] // finished: ended, skipped or failed to start
			case types.ProcessConditionCompletedSuccessfully:
				ok = tr.exited[k] && tr.exit0[k]
			case types.ProcessConditionHealthy:
				ok = tr.probeOK[k]
			case types.ProcessConditionLogReady:
				ok = tr.line[k]
			case types.ProcessConditionStarted:
				ok = tr.released[k]
			}
			if !ok {
				verifShape("edge=" + e.cond)
				verifFail("launched.before.condition.met")
			}
		}
	}
	r := vRunner(vProject(confs...), false)
	runDone := make(chan error, 1)
	// probe driver: one readiness check per probed dependency, after its launch
	for k := 0; k < 2; k++ {
		if confs[k].ReadinessProbe == nil {
			continue
		}
		name := names[k]
		outcome := verifChooseK("probe."+name, 2) == 1
		if verifNative() {
			// natively the real go-health scheduler runs the real exec checker right after the
			// launch: the outcome is fixed by the command, the ground truth is set up front
			// (the native oracle cannot see the instant of the success, only its existence)
			if outcome {
				confs[k].ReadinessProbe.Exec.Command = "true"
				tr.probeOK[name] = true
			} else {
				confs[k].ReadinessProbe.Exec.Command = "false"
			}
			continue
		}
		go func() {
			for n := range w.started {
				if n == name {
					break
				}
			}
			verifYield("probe:" + name)
			if outcome {
				// ground truth first: the success is a fact once the checker has seen it
				tr.mu.Lock()
				tr.probeOK[name] = true
				tr.mu.Unlock()
			}
			if !vProbeCheck(name+"_ready_probe", outcome) && outcome {
				tr.mu.Lock()
				tr.probeOK[name] = false // the probe was not running: nothing was delivered
				tr.mu.Unlock()
			}
		}()
	}
	go func() { runDone <- r.Run() }()
	// when nothing more can happen, stop whatever still runs so that Run() can return
	go func() {
		verifQuiesce()
		if vAliveTotal() > 0 {
			verifEvent("final shutdown")
			_ = r.ShutDownProject()
		}
	}()
	<-runDone
	verifQuiesce()
	verifReach("end")
	_ = strconv.Itoa
}
