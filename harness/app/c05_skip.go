//go:build verif

package app

import (
	"errors"
	"os"

	"github.com/f1bonacc1/process-compose/src/health"
	"github.com/f1bonacc1/process-compose/src/types"
)

func vStatMissing(name string) (os.FileInfo, error) {
	return nil, errors.New("stat " + name + ": no such file or directory")
}

var vUnsatConds = []string{types.ProcessConditionCompletedSuccessfully, types.ProcessConditionHealthy, types.ProcessConditionLogReady}

// C05: chain a <- b <- c. a fails to satisfy b's condition; b must be skipped (never launched,
// Skipped, exit code != 0) and so must c; with exit_on_skipped on c the project exits with 1.
func VerifC05_Chain() {
	w := vInit()
	vBindHealth()
	cond1 := vUnsatConds[verifChooseK("cond.b.on.a", 3)]
	cond2 := vUnsatConds[verifChooseK("cond.c.on.b", 3)]
	verifShape("b.on.a=" + cond1)
	verifShape("c.on.b=" + cond2)
	a := vConf("a", nil)
	b := vConf("b", map[string]string{"a": cond1})
	c := vConf("c", map[string]string{"b": cond2})
	// what the conditions need on the dependency side (as the loader validators demand)
	if cond1 == types.ProcessConditionHealthy {
		a.ReadinessProbe = &health.Probe{Exec: &health.ExecProbe{Command: "check"}}
	}
	if cond1 == types.ProcessConditionLogReady {
		a.ReadyLogLine = "ready"
	}
	if cond2 == types.ProcessConditionHealthy {
		b.ReadinessProbe = &health.Probe{Exec: &health.ExecProbe{Command: "check"}}
	}
	if cond2 == types.ProcessConditionLogReady {
		b.ReadyLogLine = "ready"
	}
	exitOnSkipped := verifChooseK("c.exit_on_skipped", 2) == 1
	c.RestartPolicy.ExitOnSkipped = exitOnSkipped
	// how a fails
	mode := verifChooseK("a.failure", 4)
	switch mode {
	case 0:
		verifShape("a.exits.nonzero")
		w.behav["a"] = &vBehav{codes: []int{3}, lines: []string{"booting"}}
	case 1:
		verifShape("a.start.error")
		w.behav["a"] = &vBehav{startErr: true}
	case 2:
		verifShape("a.bad.working.dir")
		a.WorkingDir = "/verif-no-such-dir"
		verifBind("os.Stat", vStatMissing)
		w.behav["a"] = &vBehav{codes: []int{0}}
	case 3:
		verifShape("a.stopped.by.user")
		w.behav["a"] = &vBehav{untilStop: []bool{true}, lines: []string{"booting"}}
	}
	w.behav["b"] = &vBehav{codes: []int{0}}
	w.behav["c"] = &vBehav{codes: []int{0}}
	// optionally two bystanders that are running when the skip brings the project down: one
	// with exit_on_end (a victim of that shutdown: its code must not become the project's) and
	// one that is slow to die
	confs := []types.ProcessConfig{a, b, c}
	// (a may fail while Run() still registers the bystanders: then they are never started)
	withVictim := exitOnSkipped && verifChooseK("bystanders", 2) == 1
	if withVictim {
		if mode == 0 {
			w.behav["a"].latency = 1 // a exits once nothing else can happen
		}
		verifShape("with.exit_on_end.victim")
		v := vConf("v", nil)
		v.RestartPolicy.ExitOnEnd = true
		s := vConf("s", nil)
		w.behav["v"] = &vBehav{untilStop: []bool{true}}
		w.behav["s"] = &vBehav{untilStop: []bool{true}, latency: 1}
		confs = append(confs, v, s)
	}
	w.onStart = func(name string, attempt int) {
		if name == "b" || name == "c" {
			verifFail("dependent.launched")
		}
	}
	VerifStateHook = func(proc, state string) { verifEvent("state " + proc + " -> " + state) }
	r := vRunner(vProject(confs...), false)
	runDone := make(chan error, 1)
	go func() { runDone <- r.Run() }()
	if mode == 3 {
		go func() {
			for n := range w.started { // the user stops a once its command runs
				if n == "a" {
					break
				}
			}
			_ = r.StopProcess("a")
		}()
	}
	err := <-runDone
	verifQuiesce()
	for _, n := range []string{"b", "c"} {
		st, e := r.GetProcessState(n)
		if e != nil {
			verifFail("no.state")
			continue
		}
		verifAssert("dependent.skipped", st.Status == types.ProcessStateSkipped)
		verifAssert("dependent.exit.code.nonzero", st.ExitCode != 0)
	}
	if exitOnSkipped {
		var ee *ExitError
		if errors.As(err, &ee) {
			verifAssert("exit_on_skipped.code.1", ee.Code == 1)
		} else {
			verifFail("exit_on_skipped.no.error")
		}
	}
	verifReach("end")
}

// C05 (several dependencies): a dependent with two dependencies - one that is never scheduled
// (disabled) and one that fails its condition - is skipped, whatever order the depends_on map is
// visited in; so is its own dependent.
func VerifC05_TwoDeps() {
	w := vInit()
	verifSymbolicMapOrderIn("waitIfNeeded")
	verifSymbolicMapOrderIn("waitForDependencies")
	verifSymbolicMapOrder(true)
	cond := []string{types.ProcessConditionCompletedSuccessfully, types.ProcessConditionLogReady}[verifChooseK("condition", 2)]
	verifShape("failing=" + cond)
	bad := vConf("bad", nil)
	if cond == types.ProcessConditionLogReady {
		bad.ReadyLogLine = "ready"
	}
	ghost := vConf("ghost", nil)
	ghost.Disabled = true
	mid := vConf("mid", map[string]string{"ghost": types.ProcessConditionCompleted, "bad": cond})
	leaf := vConf("leaf", map[string]string{"mid": types.ProcessConditionCompletedSuccessfully})
	w.behav["bad"] = &vBehav{codes: []int{3}, lines: []string{"booting"}}
	w.behav["mid"] = &vBehav{codes: []int{0}}
	w.behav["leaf"] = &vBehav{codes: []int{0}}
	w.onStart = func(name string, attempt int) {
		if name == "mid" || name == "leaf" {
			verifFail("dependent.launched")
		}
	}
	r := vRunner(vProject(bad, ghost, mid, leaf), false)
	_ = r.Run()
	verifQuiesce()
	for _, n := range []string{"mid", "leaf"} {
		st, e := r.GetProcessState(n)
		if e != nil {
			verifFail("no.state")
			continue
		}
		verifAssert("dependent.skipped", st.Status == types.ProcessStateSkipped)
		verifAssert("dependent.exit.code.nonzero", st.ExitCode != 0)
	}
	verifReach("end")
}
