//go:build verif

package app

import (
	"strings"
	"github.com/f1bonacc1/process-compose/src/types"
)

// C08: histories of start/stop/restart requests on one process (plus an untouched bystander).
// At most one live command per process at any time (checked in the stub Commander at every
// launch); a successful stop of a running process ends it without a relaunch; a start
// launches exactly one instance iff none is active, else fails without side effects; a
// successful restart yields exactly one new instance, launched after the old one has exited;
// unknown names fail and change nothing.
func verifHistoryBody(k int) {
	w := vInit()
	policy := []string{types.RestartPolicyNo, types.RestartPolicyAlways}[verifChooseK("policy", 2)]
	p := vConf("p", nil)
	p.RestartPolicy.Restart = policy
	q := vConf("q", nil)
	// p runs until it is stopped; it reacts to the signal at once or only when nothing else can happen
	w.behav["p"] = &vBehav{untilStop: []bool{true}, latency: 2}
	w.behav["q"] = &vBehav{untilStop: []bool{true}}
	r := vRunner(vProject(p, q), false)
	runDone := make(chan error, 1)
	go func() { runDone <- r.Run() }()
	verifQuiesce() // both launched
	verifAssert("initial.launch", vGet(w.starts, "p") == 1 && vGet(w.starts, "q") == 1)
	hist := ""
	for i := 0; i < k; i++ {
		startsBefore, exitsBefore := vGet(w.starts, "p"), vGet(w.exits, "p")
		aliveBefore := vGet(w.alive, "p")
		st, _ := r.GetProcessState("p")
		activeBefore := r.getRunningProcess("p") != nil
		_ = st
		switch verifChooseK("request."+string(rune('0'+i)), 4) {
		case 0:
			hist += "start,"
			verifShape("start")
			err := r.StartProcess("p")
			verifQuiesce()
			if err == nil {
				verifAssert("start.ok.exactly.one.new.instance", vGet(w.starts, "p") == startsBefore+1)
				verifAssert("start.ok.only.when.none.active", aliveBefore == 0)
			} else {
				verifAssert("start.failed.no.side.effect", vGet(w.starts, "p") == startsBefore && vGet(w.exits, "p") == exitsBefore)
				verifAssert("start.fails.only.when.active", activeBefore)
			}
		case 1:
			hist += "stop,"
			verifShape("stop")
			err := r.StopProcess("p")
			verifQuiesce()
			if err == nil && aliveBefore == 1 {
				verifAssert("stop.ok.process.ended", vGet(w.alive, "p") == 0)
				verifAssert("stop.ok.no.relaunch", vGet(w.starts, "p") == startsBefore)
			}
			if err != nil {
				verifAssert("stop.failed.no.side.effect", vGet(w.starts, "p") == startsBefore && vGet(w.exits, "p") == exitsBefore)
			}
		case 2:
			hist += "restart,"
			verifShape("restart")
			err := r.RestartProcess("p")
			verifQuiesce()
			if err == nil {
				verifAssert("restart.ok.exactly.one.new.instance", vGet(w.starts, "p") == startsBefore+1)
				verifAssert("restart.ok.one.alive", vGet(w.alive, "p") == 1)
				if aliveBefore == 1 {
					verifAssert("restart.ok.old.instance.exited", vGet(w.exits, "p") == exitsBefore+1)
				}
			}
		case 3:
			hist += "unknown,"
			verifShape("unknown")
			e1, e2, e3 := r.StartProcess("nope"), r.StopProcess("nope"), r.RestartProcess("nope")
			verifQuiesce()
			verifAssert("unknown.name.fails", e1 != nil && e2 != nil && e3 != nil)
			verifAssert("unknown.name.no.side.effect", vGet(w.starts, "p") == startsBefore && vGet(w.exits, "p") == exitsBefore)
		}
		verifAssert("bystander.untouched", vGet(w.starts, "q") == 1 && vGet(w.alive, "q") == 1)
	}
	verifEvent("history " + hist)
	_ = r.ShutDownProject()
	<-runDone
	verifAssert("nothing.alive.at.end", vAliveTotal() == 0)
	verifReach("end")
}

func VerifC08_History2() { verifHistoryBody(2) }
func VerifC08_History3() { verifHistoryBody(3) }

// C08 (concurrent duplicates): two clients issue one request each at the same time.
// At most one live command at any time (checked at every launch); afterwards every live
// command is a managed one (registered and reported running) and every call has returned.
func VerifC08_Concurrent() {
	w := vInit()
	policy := []string{types.RestartPolicyNo, types.RestartPolicyAlways}[verifChooseK("policy", 2)]
	p := vConf("p", nil)
	p.RestartPolicy.Restart = policy
	w.behav["p"] = &vBehav{untilStop: []bool{true}, latency: 2}
	r := vRunner(vProject(p), false)
	runDone := make(chan error, 1)
	go func() { runDone <- r.Run() }()
	verifQuiesce()
	done := make(chan int, 2)
	for c := 0; c < 2; c++ {
		req := verifChooseK("request."+string(rune('0'+c)), 3)
		cl := "client" + string(rune('0'+c))
		go func() {
			verifYield(cl)
			switch req {
			case 0:
				verifShape(cl + ":start")
				_ = r.StartProcess("p")
			case 1:
				verifShape(cl + ":stop")
				_ = r.StopProcess("p")
			case 2:
				verifShape(cl + ":restart")
				_ = r.RestartProcess("p")
			}
			done <- 1
		}()
	}
	<-done
	<-done
	verifQuiesce()
	alive := vGet(w.alive, "p")
	verifAssert("at.most.one.alive", alive <= 1)
	if alive == 1 {
		verifAssert("live.instance.is.managed", r.getRunningProcess("p") != nil)
		st, err := r.GetProcessState("p")
		verifAssert("live.instance.reported.running", err == nil && st.IsRunning)
	}
	_ = r.ShutDownProject()
	<-runDone
	verifQuiesce()
	verifAssert("nothing.alive.at.end", vAliveTotal() == 0)
	verifReach("end")
}

// C08 (bulk stop): StopProcesses stops every named process that is running and reports, per
// name, what happened; the request as a whole fails (an error is returned) exactly when at
// least one of the names could not be stopped - whatever the order of the names.
func VerifC08_BulkStop() {
	w := vInit()
	names := []string{"a", "b", "c"}
	confs := []types.ProcessConfig{}
	for _, n := range names {
		confs = append(confs, vConf(n, nil))
		w.behav[n] = &vBehav{untilStop: []bool{true}}
	}
	r := vRunner(vProject(confs...), false)
	runDone := make(chan error, 1)
	go func() { runDone <- r.Run() }()
	verifQuiesce()
	_ = r.StopProcess("a") // a is not running any more when the bulk request arrives
	verifQuiesce()
	// the request: two or three names out of {a (stopped), b, c (running), ghost (unknown)}, every order
	pool := []string{"a", "b", "c", "ghost"}
	k := 2 + verifChooseK("names", 2)
	var req []string
	used := map[int]bool{}
	for i := 0; i < k; i++ {
		j := verifChooseK("name."+string(rune('0'+i)), len(pool))
		if used[j] {
			verifAssume(false)
		}
		used[j] = true
		req = append(req, pool[j])
	}
	verifShape(strings.Join(req, ","))
	wantFail := 0
	for _, n := range req {
		if n == "a" || n == "ghost" {
			wantFail++
		}
	}
	res, err := r.StopProcesses(req) // REAL code
	verifQuiesce()
	verifAssert("error.iff.some.name.failed", (err != nil) == (wantFail > 0))
	for _, n := range req {
		if n == "b" || n == "c" {
			verifAssert("running.process.stopped", vGet(w.alive, n) == 0)
			verifAssert("result.lists.stopped.process", res[n] == "ok")
		} else {
			verifAssert("result.lists.failed.name", res[n] != "ok" && res[n] != "")
		}
	}
	for _, n := range []string{"b", "c"} {
		if !used[map[string]int{"b": 1, "c": 2}[n]] {
			verifAssert("unnamed.process.untouched", vGet(w.alive, n) == 1)
		}
	}
	_ = r.ShutDownProject()
	<-runDone
	verifReach("end")
}
