//go:build verif

package app

import (
	"sort"
	"strings"

	"github.com/f1bonacc1/process-compose/src/command"
	"github.com/f1bonacc1/process-compose/src/health"
	"github.com/f1bonacc1/process-compose/src/loader"
	"github.com/f1bonacc1/process-compose/src/types"
)

func vLoadedProject(procs types.Processes) *types.Project {
	prj := &types.Project{LogLength: 10,
		ShellConfig: &command.ShellConfig{ShellCommand: "sh", ShellArgument: "-c", ElevatedShellCmd: "sudo", ElevatedShellArg: "-S"},
		Processes:   procs}
	if err := loader.VerifLoadPipeline(prj); err != nil {
		verifFail("load.pipeline.failed")
	}
	return prj
}

var vUpdateFields = []string{"unchanged", "command", "environment", "working_dir", "entrypoint", "restart.policy", "backoff", "shutdown.timeout",
	"dependency.condition", "readiness.probe.threshold", "liveness.probe.period", "ready_log_line"}

func vBaseProc(cmd string) types.ProcessConfig {
	return types.ProcessConfig{Command: cmd, Environment: types.Environment{"A=1"},
		ReadinessProbe: &health.Probe{Exec: &health.ExecProbe{Command: "check"}, FailureThreshold: 3},
		LivenessProbe:  &health.Probe{Exec: &health.ExecProbe{Command: "alive"}, PeriodSeconds: 5}}
}

// C14: after UpdateProject(P') the configured processes are exactly those of P'; a process
// whose launch-relevant configuration is unchanged keeps its running instance; a changed one is
// terminated and relaunched with the new configuration; removed ones are terminated and no
// longer listed; new ones are launched; the status map names exactly added/removed/updated.
func VerifC14_Update() {
	w := vInit()
	vBindHealth()
	verifBind("os.Stat", vStatDir) // every working directory exists
	field := vUpdateFields[verifChooseK("changed.field.of.a", len(vUpdateFields))]
	removeB := verifChooseK("remove.b", 2) == 1
	addC := verifChooseK("add.c", 2) == 1
	verifShape("a:" + field)
	mkA := func() types.ProcessConfig {
		a := vBaseProc("run a")
		a.DependsOn = types.DependsOnConfig{"k": {Condition: types.ProcessConditionStarted}}
		return a
	}
	// d is disabled in both projects; its environment changes or not (a process that is not
	// running is updated as well: the stored configuration is the new one, a later manual
	// start uses it)
	dChanged := verifChooseK("disabled.d.changed", 2) == 1
	mkD := func(v string) types.ProcessConfig {
		d := vBaseProc("run d")
		d.Disabled = true
		d.Environment = types.Environment{"D=" + v}
		return d
	}
	// r restarts for ever (back-off 5 s); when the update arrives its command has just died and
	// it is waiting out the back-off. The update changes it, removes it, or r does not exist.
	rMode := []string{"absent", "changed.in.back-off", "removed.in.back-off"}[verifChooseK("r", 3)]
	mkR := func(v string) types.ProcessConfig {
		rc := vBaseProc("run r")
		rc.ReadinessProbe, rc.LivenessProbe = nil, nil
		rc.Environment = types.Environment{"R=" + v}
		rc.RestartPolicy = types.RestartPolicyConfig{Restart: types.RestartPolicyAlways, BackoffSeconds: 5}
		return rc
	}
	oldProcs := types.Processes{"a": mkA(), "b": vBaseProc("run b"), "k": vBaseProc("keep"), "d": mkD("1")}
	if rMode != "absent" {
		verifShape("r:" + rMode)
		oldProcs["r"] = mkR("1")
		w.behav["r"] = &vBehav{untilStop: []bool{true}, codes: []int{1}}
	}
	old := vLoadedProject(oldProcs)
	r := vRunner(old, false)
	runDone := make(chan error, 1)
	go func() { runDone <- r.Run() }()
	verifQuiesce()
	verifAssert("initial.launch", vGet(w.alive, "a") == 1 && vGet(w.alive, "b") == 1 && vGet(w.alive, "k") == 1)
	a := mkA()
	switch field {
	case "command":
		a.Command = "run a2"
	case "environment":
		a.Environment = types.Environment{"A=2"}
	case "working_dir":
		a.WorkingDir = "/tmp"
	case "entrypoint":
		a.Command = ""
		a.Entrypoint = []string{"python3", "x.py"}
	case "restart.policy":
		a.RestartPolicy.Restart = types.RestartPolicyAlways
	case "backoff":
		a.RestartPolicy.BackoffSeconds = 7
	case "shutdown.timeout":
		a.ShutDownParams.ShutDownTimeout = 9
	case "dependency.condition":
		a.DependsOn = types.DependsOnConfig{"k": {Condition: types.ProcessConditionCompleted}}
	case "readiness.probe.threshold":
		a.ReadinessProbe.FailureThreshold = 7
	case "liveness.probe.period":
		a.LivenessProbe.PeriodSeconds = 9
	case "ready_log_line":
		a.ReadyLogLine = ""
		a.Description = "described" // not launch-relevant: changes nothing that matters
	}
	procs := types.Processes{"a": a, "k": vBaseProc("keep"), "d": mkD("1")}
	if dChanged {
		procs["d"] = mkD("2")
	}
	if !removeB {
		procs["b"] = vBaseProc("run b")
	}
	if addC {
		procs["c"] = vBaseProc("run c")
	}
	if field == "dependency.condition" {
		// k must have completed for a to be relaunched: let it be a process that exits
		w.behav["k"] = &vBehav{untilStop: []bool{true}}
	}
	if rMode == "changed.in.back-off" {
		procs["r"] = mkR("2")
	}
	if rMode != "absent" {
		vCrash("r") // its command dies by itself ...
		verifSettle() // ... and it waits out its back-off: this is when the update arrives
		verifAssert("r.in.back-off", vGet(w.alive, "r") == 0 && vGet(w.starts, "r") == 1)
	}
	np := vLoadedProject(procs)
	startsA, startsK, startsB := vGet(w.starts, "a"), vGet(w.starts, "k"), vGet(w.starts, "b")
	status, err := r.UpdateProject(np) // REAL code
	verifQuiesce()
	verifAssert("update.succeeds", err == nil)
	// status map
	want := map[string]string{}
	changed := field != "unchanged" && field != "ready_log_line"
	if field == "ready_log_line" {
		changed = true // description differs: Compare reports a difference; relaunching is allowed, not required
	}
	if changed {
		want["a"] = types.ProcessUpdateUpdated
	}
	if removeB {
		want["b"] = types.ProcessUpdateRemoved
	}
	if addC {
		want["c"] = types.ProcessUpdateAdded
	}
	if dChanged {
		want["d"] = types.ProcessUpdateUpdated
	}
	switch rMode {
	case "changed.in.back-off":
		want["r"] = types.ProcessUpdateUpdated
		// (the update has settled and the old back-off would have elapsed by now)
		env := w.startEnv["r"]
		verifAssert("r.relaunched.once.with.the.new.configuration", vGet(w.starts, "r") == 2 && vGet(w.alive, "r") == 1 && len(env) > 0 && env[len(env)-1] == "R=2")
	case "removed.in.back-off":
		want["r"] = types.ProcessUpdateRemoved
		verifAssert("removed.process.never.relaunched", vGet(w.starts, "r") == 1 && vGet(w.alive, "r") == 0)
	}
	var got, exp []string
	for k, v := range status {
		got = append(got, k+"="+v)
	}
	for k, v := range want {
		exp = append(exp, k+"="+v)
	}
	sort.Strings(got)
	sort.Strings(exp)
	if field != "ready_log_line" {
		verifAssert("status.map", strings.Join(got, ",") == strings.Join(exp, ","))
	}
	// configured set
	st, e := r.GetProcessesState()
	if e != nil {
		verifFail("states.unavailable")
	} else {
		var listed, wantNames []string
		for _, s := range st.States {
			listed = append(listed, s.Name)
		}
		for n := range procs {
			wantNames = append(wantNames, n)
		}
		sort.Strings(listed)
		sort.Strings(wantNames)
		verifAssert("configured.set.is.new.project's", strings.Join(listed, ",") == strings.Join(wantNames, ","))
	}
	// instances
	verifAssert("untouched.process.keeps.its.instance", vGet(w.starts, "k") == startsK && vGet(w.alive, "k") == 1)
	if field == "unchanged" {
		verifAssert("unchanged.process.keeps.its.instance", vGet(w.starts, "a") == startsA && vGet(w.alive, "a") == 1)
	} else if field != "ready_log_line" && field != "dependency.condition" {
		verifAssert("changed.process.relaunched.once", vGet(w.starts, "a") == startsA+1 && vGet(w.alive, "a") == 1)
		info, _ := r.GetProcessInfo("a")
		if info != nil {
			ref := np.Processes["a"]
			verifAssert("new.configuration.in.effect", info.Compare(&ref))
		}
		if field == "environment" {
			env := w.startEnv["a"]
			verifAssert("relaunched.with.new.environment", len(env) > 0 && env[len(env)-1] == "A=2")
		}
		if field == "working_dir" {
			verifAssert("relaunched.in.new.working.dir", w.startDir["a"] == "/tmp")
		}
	}
	if removeB {
		verifAssert("removed.process.terminated", vGet(w.alive, "b") == 0)
	} else {
		verifAssert("kept.process.keeps.its.instance", vGet(w.starts, "b") == startsB && vGet(w.alive, "b") == 1)
	}
	if addC {
		verifAssert("added.process.launched", vGet(w.starts, "c") == 1 && vGet(w.alive, "c") == 1)
	}
	// the disabled process: never launched by the update, stored configuration is the new one
	verifAssert("disabled.process.not.launched", vGet(w.starts, "d") == 0)
	if info, e := r.GetProcessInfo("d"); e != nil || info == nil {
		verifFail("disabled.process.lost")
	} else {
		ref := np.Processes["d"]
		verifAssert("disabled.process.has.new.configuration", info.Compare(&ref))
	}
	// applying the same project again changes nothing and reports nothing
	if field != "ready_log_line" && field != "dependency.condition" {
		startsAll := vGet(w.starts, "a") + vGet(w.starts, "b") + vGet(w.starts, "k") + vGet(w.starts, "c")
		status2, err2 := r.UpdateProject(vLoadedProject(procs)) // REAL code
		verifQuiesce()
		verifAssert("second.identical.update.reports.nothing", err2 == nil && len(status2) == 0)
		verifAssert("second.identical.update.relaunches.nothing", vGet(w.starts, "a")+vGet(w.starts, "b")+vGet(w.starts, "k")+vGet(w.starts, "c") == startsAll)
	}
	// a configuration that was fetched, edited and handed back (the TUI editor, a REST client): k
	// gets a new command; the instance that replaces the old one runs the new command line
	if info, e := r.GetProcessInfo("k"); e == nil && info != nil {
		edited := *info
		edited.Command = "keep edited"
		startsK2 := vGet(w.starts, "k")
		verifAssert("edited.update.succeeds", r.UpdateProcess(&edited) == nil)
		verifQuiesce()
		verifAssert("edited.process.relaunched.once", vGet(w.starts, "k") == startsK2+1 && vGet(w.alive, "k") == 1)
		w.mu.Lock()
		line := w.startCmd["k"]
		w.mu.Unlock()
		verifAssert("relaunched.with.the.edited.command", strings.Contains(line, "keep edited"))
		if stored, e2 := r.GetProcessInfo("k"); e2 == nil && stored != nil {
			verifAssert("stored.arguments.match.the.stored.command", strings.Contains(strings.Join(stored.Args, " "), "keep edited"))
		}
	}
	// a manual start of the disabled process uses its new configuration
	if err := r.StartProcess("d"); err != nil {
		verifFail("disabled.process.cannot.be.started")
	} else {
		verifQuiesce()
		env := w.startEnv["d"]
		wantEnv := "D=1"
		if dChanged {
			wantEnv = "D=2"
		}
		verifAssert("manual.start.uses.new.configuration", vGet(w.alive, "d") == 1 && len(env) > 0 && env[len(env)-1] == wantEnv)
	}
	_ = r.ShutDownProject()
	<-runDone
	verifReach("end")
}
