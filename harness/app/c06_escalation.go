//go:build verif

package app

import (
	"os/exec"
	"context"
	"errors"
	"strings"
	"time"

	"github.com/f1bonacc1/process-compose/src/command"
	"github.com/f1bonacc1/process-compose/src/types"
)

// stub of the shutdown command (under symgo; natively the real shell runs it)
var vShutCmdEnv []string
var vShutCmdDir string
var vShutCmdText string
var vShutCmdCtx context.Context

func vBuildShutCmd(ctx context.Context, shell command.ShellConfig, cmd string) *command.CmdWrapper {
	vShutCmdText, vShutCmdCtx = cmd, ctx
	return &command.CmdWrapper{}
}
func vShutCmdSetEnv(c *command.CmdWrapper, env []string) { vShutCmdEnv = env }
func vShutCmdSetDir(c *command.CmdWrapper, dir string)   { vShutCmdDir = dir }
func vShutCmdRun(c *command.CmdWrapper) error {
	switch {
	case strings.HasPrefix(vShutCmdText, "exit 0"), strings.HasPrefix(vShutCmdText, "exit 1"):
		// a short command: it needs a moment (10 ms) and is killed if its context ends first
		select {
		case <-vShutCmdCtx.Done():
			return &exec.ExitError{}
		case <-time.After(10 * time.Millisecond):
		}
		if strings.HasPrefix(vShutCmdText, "exit 0") {
			return nil
		}
		return errors.New("exit status 1")
	default: // "sleep 30": runs into the context deadline
		<-vShutCmdCtx.Done()
		// what os/exec reports for a command killed through its context: an ExitError
		// whose exit code is -1 (no exit status: the command died by a signal)
		return &exec.ExitError{}
	}
}

// C06 (escalation): stopping a process delivers the configured signal with the configured
// parent_only flag; SIGKILL follows only when shutdown.timeout_seconds has elapsed with the
// command still alive - never earlier, never when it ended in time - or when the configured
// shutdown command failed or timed out; the shutdown command gets the process's environment
// and working directory.
func VerifC06_Escalation() {
	w := vInit()
	sig := []int{0, 2, 15}[verifChooseK("signal", 3)]
	timeout := []int{0, 2}[verifChooseK("timeout", 2)]
	parentOnly := verifChooseK("parent_only", 2) == 1
	shutCmd := []string{"", "exit 0", "exit 1", "sleep 30"}[verifChooseK("shutdown.command", 4)]
	ignoreTerm := verifChooseK("ignores.term", 2) == 1
	conf := vConf("p", nil)
	conf.ShutDownParams = types.ShutDownParams{ShutDownCommand: shutCmd, ShutDownTimeout: timeout, Signal: sig, ParentOnly: parentOnly}
	conf.WorkingDir = ""
	conf.Environment = types.Environment{"MARK=1"}
	w.behav["p"] = &vBehav{untilStop: []bool{true}, ignoreTerm: ignoreTerm, latency: 2}
	verifBind("github.com/f1bonacc1/process-compose/src/command.BuildCommandShellArgContext", vBuildShutCmd)
	verifBind("(*github.com/f1bonacc1/process-compose/src/command.CmdWrapper).SetEnv", vShutCmdSetEnv)
	verifBind("(*github.com/f1bonacc1/process-compose/src/command.CmdWrapper).SetDir", vShutCmdSetDir)
	verifBind("(*github.com/f1bonacc1/process-compose/src/command.CmdWrapper).Run", vShutCmdRun)
	proc := vMkProc(&conf)
	done := make(chan int, 1)
	go func() { done <- proc.run() }()
	<-w.started
	t0 := verifClk()
	_ = proc.shutDownNoRestart() // REAL stop path
	verifQuiesce()
	if vAliveTotal() > 0 {
		// the stop path is over and the command still lives (it ignores the signal and no
		// escalation is configured, or the stub shutdown command did not really end it): the
		// harness ends it so that run() can return; this kill is not part of the record
		verifShape("survived.the.stop")
		n := len(w.stopLog)
		_ = proc.command.Stop(9, false)
		w.stopLog = w.stopLog[:n]
	}
	<-done
	verifQuiesce()
	log := w.stopLog
	kills := 0
	for _, s := range log {
		if s.sig == 9 {
			kills++
		}
	}
	if shutCmd == "" {
		verifShape("signal")
		verifAssert("first.stop.is.the.configured.signal", len(log) >= 1 && log[0].sig == sig && log[0].parentOnly == parentOnly)
		if timeout == 0 {
			verifAssert("no.timeout.no.kill", kills == 0 || sig == 9)
			if !ignoreTerm {
				verifAssert("exactly.one.signal", len(log) == 1)
			}
		} else {
			for _, s := range log[1:] {
				if s.sig == 9 {
					verifAssert("kill.not.before.timeout", s.clk-t0 >= timeout*1000000000)
					verifAssert("kill.only.if.still.alive", s.aliveThen)
					verifAssert("kill.honours.parent_only", s.parentOnly == parentOnly)
				}
			}
			if ignoreTerm {
				verifAssert("kill.after.timeout.when.still.alive", kills >= 1)
				verifReach("escalated")
			}
		}
	} else {
		verifShape("command:" + shutCmd)
		if !verifNative() {
			verifAssert("shutdown.command.gets.environment", len(vShutCmdEnv) > 0 && vShutCmdEnv[len(vShutCmdEnv)-1] == "MARK=1")
			verifAssert("shutdown.command.gets.working.dir", vShutCmdDir == conf.WorkingDir)
		}
		if shutCmd == "exit 0" {
			verifAssert("no.kill.after.successful.command", kills == 0)
		} else {
			verifAssert("kill.after.failed.command", kills == 1)
			for _, s := range log {
				if s.sig == 9 {
					verifAssert("fallback.kill.whole.group", !s.parentOnly)
				}
			}
		}
	}
	verifAssert("nothing.alive.at.end", vAliveTotal() == 0)
	_ = time.Second
	verifReach("end")
}

// C06 (timeout counted from the signal, project shutdown): in an ordered shutdown a process is
// signalled only after its dependents are gone; its SIGKILL deadline is timeout_seconds after
// ITS stop signal - not after the shutdown request.
func VerifC06_ProjectTimeout() {
	w := vInit()
	db := vConf("db", nil)
	db.ShutDownParams.ShutDownTimeout = 3
	app := vConf("app", map[string]string{"db": types.ProcessConditionStarted})
	appDies := 1 + verifChooseK("app.dies.after.seconds", 3) // 1..3 s
	dbDies := verifChooseK("db.dies.after.seconds", 3)       // 0..2 s: always within its timeout
	w.behav["app"] = &vBehav{untilStop: []bool{true}, dieSecs: appDies}
	w.behav["db"] = &vBehav{untilStop: []bool{true}, dieSecs: dbDies}
	r := vRunner(vProject(db, app), true)
	runDone := make(chan error, 1)
	go func() { runDone <- r.Run() }()
	verifQuiesce()
	_ = r.ShutDownProject()
	<-runDone
	firstStop := -1
	for _, s := range w.stopLog {
		if s.name != "db" {
			continue
		}
		if firstStop < 0 {
			firstStop = s.clk
			continue
		}
		if s.sig == 9 {
			verifAssert("kill.not.before.timeout.after.the.signal", s.clk-firstStop >= 3*1000000000)
			verifFail("killed.although.it.ended.within.its.timeout")
		}
	}
	verifAssert("db.was.signalled", firstStop >= 0)
	verifAssert("nothing.alive.at.end", vAliveTotal() == 0)
	verifReach("end")
}
