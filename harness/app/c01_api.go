//go:build verif

package app

import (
	"sync"

	"github.com/f1bonacc1/process-compose/src/health"
	"github.com/f1bonacc1/process-compose/src/types"
)

// C01 (later starts through the API): a process that is started, restarted, scaled up or added
// by a project update while its dependency has not (yet) met the condition is gated exactly
// like at start-up: it is launched only after the dependency became ready, and never when the
// dependency failed.
func VerifC01_Api() {
	w := vInit()
	vBindHealth()
	verifBind("os.Stat", vStatDir)
	satisfiable := verifChooseK("condition", 2) == 0
	op := []string{"restart", "start", "scale", "update"}[verifChooseK("operation", 4)]
	verifShape(op)
	dep := vConf("dep", nil)
	app := vConf("app", nil)
	var mu sync.Mutex
	depReady, startRefused := false, false
	if satisfiable {
		// process_healthy on a dependency that becomes ready only later
		verifShape("healthy.later")
		dep.ReadinessProbe = &health.Probe{Exec: &health.ExecProbe{Command: "check"}}
		app.DependsOn["dep"] = types.ProcessDependency{Condition: types.ProcessConditionHealthy}
		w.behav["dep"] = &vBehav{untilStop: []bool{true}}
	} else {
		// process_completed_successfully on a dependency that fails
		verifShape("dependency.failed")
		app.DependsOn["dep"] = types.ProcessDependency{Condition: types.ProcessConditionCompletedSuccessfully}
		w.behav["dep"] = &vBehav{codes: []int{3}}
	}
	w.behav["app"] = &vBehav{untilStop: []bool{true}}
	w.onStart = func(name string, attempt int) {
		if name == "dep" {
			return
		}
		mu.Lock()
		ok := depReady
		mu.Unlock()
		if !ok {
			verifFail("launched.before.condition.met")
		}
	}
	// the update/scale paths work on loaded configurations
	old := vLoadedProject(types.Processes{"dep": dep, "app": app})
	r := vRunner(old, false)
	runDone := make(chan error, 1)
	go func() { runDone <- r.Run() }()
	verifQuiesce() // dep launched (or failed), app pending (or skipped)
	switch op {
	case "restart":
		_ = r.RestartProcess("app")
	case "start":
		_ = r.StopProcess("app")
		verifQuiesce()
		if err := r.StartProcess("app"); err != nil {
			// the stopped instance is still registered (it waits for its dependency): the start
			// is refused without side effects, nothing will be launched
			startRefused = true
		}
	case "scale":
		_ = r.ScaleProcess("app", 2)
	case "update":
		extra := vConf("extra", nil)
		extra.DependsOn = app.DependsOn
		np := vLoadedProject(types.Processes{"dep": dep, "app": app, "extra": extra})
		_, _ = r.UpdateProject(np)
	}
	verifQuiesce()
	verifAssert("nothing.but.the.dependency.launched.yet", vAliveTotal() <= 1)
	if satisfiable {
		mu.Lock()
		depReady = true
		mu.Unlock()
		verifAssert("probe.delivered", vProbeCheck("dep_ready_probe", true))
		verifQuiesce()
		if !startRefused {
			verifAssert("dependents.launched.once.ready", vAliveTotal() >= 2)
		}
		verifReach("launched.after.ready")
	}
	_ = r.ShutDownProject()
	<-runDone
	verifReach("end")
}
