//go:build verif

package app

import (
	"errors"
	"io"
	"os"
	"time"
	"sort"
	"strconv"
	"strings"
	"sync"

	"github.com/f1bonacc1/process-compose/src/command"
	"github.com/f1bonacc1/process-compose/src/types"
)

// ---------------------------------------------------------------------------------------
// The environment of package app's harnesses: a stub Commander (vCmd) selected through the
// verif commander seam, with scripted behaviour and ground-truth bookkeeping.
// ---------------------------------------------------------------------------------------

// vBehav scripts what the command of one process does.
type vBehav struct {
	codes      []int    // exit code of attempt k (last one repeats); used when the attempt ends by itself
	untilStop  []bool   // attempt k runs until it is signalled (last one repeats); default false
	ignoreTerm bool     // only SIGKILL ends it
	startErr   bool     // Start() fails
	lines      []string // stdout lines of every attempt
	errLines   []string // stderr lines of every attempt
	dieSecs    int      // after the signal that ends it the command needs that many seconds to exit
	runSecs    int      // a command that ends by itself first runs for that many seconds
	latency    int      // 0: exits/dies as soon as it is scheduled; 1: only when nothing else can run; 2: both (choice)
}

type vWorld struct {
	mu       sync.Mutex
	behav    map[string]*vBehav
	behavKey map[string]*vBehav // by process name / replica number (takes precedence)
	alive    map[string]int
	aliveKey map[string]int // by process name / replica number
	startKey map[string]int
	starts   map[string]int
	exits    map[string]int
	stops    map[string]int // Stop() calls received
	lastCode map[string]int
	byStop   map[string]bool // last exit was caused by a signal
	startEnv map[string][]string
	startDir map[string]string
	startCmd map[string]string // command line (executable + arguments) of the last launch
	onStart  func(name string, attempt int)
	onStop   func(name string, sig int)
	onExit   func(name string, code int)
	started  chan string // every successful Start is announced here (buffered)
	stopLog  []vStopRec
	live     map[string]*vCmd // the live command of a process (by name)
}

type vStopRec struct {
	name       string
	sig        int
	parentOnly bool
	clk        int
	aliveThen  bool
}

var vW *vWorld

// last labelled point each process's life-cycle code has passed (for shape markers)
var vLastYield map[string]string
var vLastMu sync.Mutex

func vAt(proc string) string {
	vLastMu.Lock()
	defer vLastMu.Unlock()
	if l, ok := vLastYield[proc]; ok {
		return l
	}
	return "-"
}

func vInit() *vWorld {
	vW = &vWorld{behav: map[string]*vBehav{}, behavKey: map[string]*vBehav{}, alive: map[string]int{}, aliveKey: map[string]int{}, startKey: map[string]int{}, starts: map[string]int{}, exits: map[string]int{},
		stops: map[string]int{}, lastCode: map[string]int{}, byStop: map[string]bool{}, startEnv: map[string][]string{},
		startDir: map[string]string{}, startCmd: map[string]string{}, started: make(chan string, 64), live: map[string]*vCmd{}}
	VerifCommanderHook = func(p *Process) command.Commander { return vNewCmd(p) }
	vLastYield = map[string]string{}
	VerifYieldHook = func(proc, label string) {
		vLastMu.Lock()
		vLastYield[proc] = label // reached (the goroutine may be held here)
		vLastMu.Unlock()
		verifYield(proc + ":" + label)
	}
	VerifStateHook = nil
	vLineServed = nil
	vStderrReaderLast = false
	return vW
}

func (w *vWorld) b(name string) *vBehav {
	if b, ok := w.behav[name]; ok {
		return b
	}
	return &vBehav{untilStop: []bool{true}}
}

// bc: behaviour of a command (by replica key first, then by name)
func (w *vWorld) bc(c *vCmd) *vBehav {
	w.mu.Lock()
	b, ok := w.behavKey[c.key]
	w.mu.Unlock()
	if ok {
		return b
	}
	return w.b(c.name)
}

func vPick[T any](xs []T, k int, def T) T {
	if len(xs) == 0 {
		return def
	}
	if k >= len(xs) {
		return xs[len(xs)-1]
	}
	return xs[k]
}

type vCmd struct {
	key     string // process name / replica number: stable across renames
	name    string
	attempt int
	exitCh  chan struct{}
	stopCh  chan struct{}
	sigOnce sync.Once
	code    int
	env     []string
	dir     string
	cmdline string
	started bool
	killed  bool // died by itself (crash) while it was meant to run on: exit code from the script
	pipes   []*vPipe
}

func vNewCmd(p *Process) *vCmd {
	name := p.getName()
	vW.mu.Lock()
	k := vW.starts[name]
	vW.mu.Unlock()
	return &vCmd{name: name, attempt: k, key: p.procConf.Name + "/" + strconv.Itoa(p.procConf.ReplicaNum), cmdline: strings.Join(p.getCommand(), " ")}
}

func (c *vCmd) id() string { return c.name + "#" + strconv.Itoa(c.attempt) }

func (c *vCmd) Start() error {
	w := vW
	b := w.bc(c)
	if b.startErr {
		verifEvent("startfail " + c.id())
		return errors.New("exec: command not found")
	}
	w.mu.Lock()
	w.starts[c.name]++
	w.alive[c.name]++
	w.aliveKey[c.key]++
	w.startKey[c.key]++
	n := w.alive[c.name]
	w.startEnv[c.name] = c.env
	w.startDir[c.name] = c.dir
	w.startCmd[c.name] = c.cmdline
	w.live[c.name] = c
	w.mu.Unlock()
	verifEvent("start " + c.id())
	if n > 1 {
		verifFail("two live instances of one process")
	}
	if w.onStart != nil {
		w.onStart(c.name, c.attempt)
	}
	c.exitCh = make(chan struct{})
	c.stopCh = make(chan struct{})
	c.started = true
	select {
	case w.started <- c.name:
	default:
	}
	go c.life()
	return nil
}

// life is the environment: the child process itself.
func (c *vCmd) life() {
	w := vW
	b := w.bc(c)
	byStop := false
	if vPick(b.untilStop, c.attempt, false) {
		<-c.stopCh
		byStop = true
	} else {
		// ends by itself - unless a signal arrives first
		if b.runSecs > 0 {
			select {
			case <-c.stopCh:
				byStop = true
			case <-time.After(time.Duration(b.runSecs) * time.Second):
			}
		}
		select {
		case <-c.stopCh:
			byStop = true
		default:
		}
	}
	if byStop && b.dieSecs > 0 {
		time.Sleep(time.Duration(b.dieSecs) * time.Second)
	}
	lat := b.latency
	if lat == 2 {
		lat = verifChooseK("latency:"+c.id(), 2)
	}
	if lat == 1 {
		verifLazy(true)
	}
	verifYield("life:" + c.id())
	if !byStop {
		select {
		case <-c.stopCh:
			byStop = true
		default:
		}
	}
	if c.killed {
		byStop = false
	}
	if byStop {
		c.code = -1
	} else {
		c.code = vPick(b.codes, c.attempt, 0)
	}
	w.mu.Lock()
	w.alive[c.name]--
	w.aliveKey[c.key]--
	w.exits[c.name]++
	w.lastCode[c.name] = c.code
	w.byStop[c.name] = byStop
	w.mu.Unlock()
	verifEvent("exit " + c.id() + " code " + strconv.Itoa(c.code))
	if w.onExit != nil {
		w.onExit(c.name, c.code)
	}
	close(c.exitCh)
}

func (c *vCmd) Stop(sig int, parentOnly bool) error {
	w := vW
	w.mu.Lock()
	w.stops[c.name]++
	w.stopLog = append(w.stopLog, vStopRec{c.name, sig, parentOnly, verifClk(), w.alive[c.name] > 0})
	w.mu.Unlock()
	verifEvent("stop " + c.id() + " sig " + strconv.Itoa(sig))
	if w.onStop != nil {
		w.onStop(c.name, sig)
	}
	if !c.started {
		return nil
	}
	if sig == 9 || !w.bc(c).ignoreTerm {
		c.sigOnce.Do(func() { close(c.stopCh) })
	}
	return nil
}
func (c *vCmd) Wait() error {
	<-c.exitCh
	return nil
}
func (c *vCmd) Run() error              { return nil }
func (c *vCmd) ExitCode() int           { return c.code }
func (c *vCmd) Pid() int                { return 4000 + c.attempt }
func (c *vCmd) SetCmdArgs()             {}
func (c *vCmd) AttachIo()               {}
func (c *vCmd) SetEnv(env []string)     { c.env = env }
func (c *vCmd) SetDir(dir string)       { c.dir = dir }
func (c *vCmd) Output() ([]byte, error) { return nil, nil }
func (c *vCmd) StdoutPipe() (io.ReadCloser, error) {
	p := &vPipe{cmd: c, lines: vW.bc(c).lines}
	return p, nil
}
func (c *vCmd) StderrPipe() (io.ReadCloser, error) {
	return &vPipe{cmd: c, lines: vW.bc(c).errLines, isErr: true}, nil
}

// vCrash: the live command of a process dies by itself (it was scripted to run until stopped);
// its exit code is the scripted one
func vCrash(name string) {
	vW.mu.Lock()
	c := vW.live[name]
	vW.mu.Unlock()
	if c == nil || !c.started {
		return
	}
	c.killed = true
	c.sigOnce.Do(func() { close(c.stopCh) })
}
func (c *vCmd) StdinPipe() (io.WriteCloser, error) { return nil, nil }

// vPipe: scripted output, EOF when the child has exited. ReadString serves symgo (bufio is
// passed through), Read serves the native build (real bufio on top).
type vPipe struct {
	lines []string
	pos   int
	cmd   *vCmd
	buf   []byte
	isErr bool
}

func (p *vPipe) Close() error { return nil }
// vStderrReaderLast: the goroutine that reads a scripted stderr is scheduled only when nothing
// else can run (a legal schedule: the reader is merely slow)
var vStderrReaderLast bool

// vLineServed is told about every stdout line handed to the supervisor (ground truth)
var vLineServed func(name, line string)

func (p *vPipe) serve(line string) {
	if vLineServed != nil {
		vLineServed(p.cmd.name, line)
	}
}

func (p *vPipe) ReadString(d byte) (string, error) {
	if p.isErr && len(p.lines) > 0 {
		if vStderrReaderLast {
			verifLazy(true) // this reader gets the processor only when nothing else can run
		}
		verifYield("stderr.read:" + p.cmd.name) // the reader of a scripted stderr may be slow
	}
	if p.pos < len(p.lines) {
		s := p.lines[p.pos]
		p.pos++
		p.serve(s)
		return s + "\n", nil
	}
	<-p.cmd.exitCh
	return "", io.EOF
}
func (p *vPipe) Read(b []byte) (int, error) {
	if p.isErr && len(p.lines) > 0 && len(p.buf) == 0 {
		if vStderrReaderLast {
			verifLazy(true)
		}
		verifYield("stderr.read:" + p.cmd.name)
	}
	for len(p.buf) == 0 {
		if p.pos < len(p.lines) {
			p.buf = []byte(p.lines[p.pos] + "\n")
			p.serve(p.lines[p.pos])
			p.pos++
			break
		}
		<-p.cmd.exitCh
		return 0, io.EOF
	}
	n := copy(b, p.buf)
	p.buf = p.buf[n:]
	return n, nil
}

// ---- project construction helpers ----

func vConf(name string, deps map[string]string) types.ProcessConfig {
	c := types.ProcessConfig{Name: name, ReplicaName: name, Replicas: 1, Executable: "sh", Args: []string{"-c", "run " + name},
		Command: "run " + name, Namespace: "default", LaunchTimeout: 5, DependsOn: types.DependsOnConfig{}}
	for k, v := range deps {
		c.DependsOn[k] = types.ProcessDependency{Condition: v}
	}
	return c
}

func vProject(confs ...types.ProcessConfig) *types.Project {
	procs := types.Processes{}
	for _, c := range confs {
		procs[c.ReplicaName] = c
	}
	return &types.Project{LogLength: 10, Processes: procs,
		ShellConfig: &command.ShellConfig{ShellCommand: "sh", ShellArgument: "-c", ElevatedShellCmd: "sudo", ElevatedShellArg: "-S"}}
}

func vRunner(prj *types.Project, ordered bool) *ProjectRunner {
	r, err := NewProjectRunner(&ProjectOpts{project: prj, isOrderedShutDown: ordered})
	if err != nil {
		verifFail("NewProjectRunner failed")
	}
	return r
}

func vAliveTotal() int {
	vW.mu.Lock()
	defer vW.mu.Unlock()
	n := 0
	for _, k := range vW.alive {
		n += k
	}
	return n
}

func vAliveNames() string {
	vW.mu.Lock()
	defer vW.mu.Unlock()
	var ns []string
	for n, k := range vW.alive {
		if k > 0 {
			ns = append(ns, n)
		}
	}
	sort.Strings(ns)
	return strings.Join(ns, ",")
}

func vGet(m map[string]int, k string) int {
	vW.mu.Lock()
	defer vW.mu.Unlock()
	return m[k]
}

// vDirInfo: what os.Stat reports for an existing directory (stub for working directories)
type vDirInfo struct{ name string }

func (d vDirInfo) Name() string       { return d.name }
func (d vDirInfo) Size() int64        { return 0 }
func (d vDirInfo) Mode() os.FileMode  { return os.ModeDir | 0o755 }
func (d vDirInfo) ModTime() time.Time { return time.Time{} }
func (d vDirInfo) IsDir() bool        { return true }
func (d vDirInfo) Sys() any           { return nil }

func vStatDir(name string) (os.FileInfo, error) { return vDirInfo{name}, nil }
