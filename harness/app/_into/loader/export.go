//go:build verif

package loader

import "github.com/f1bonacc1/process-compose/src/types"

// VerifLoadPipeline runs the post-merge part of Load (mutators, template rendering,
// executable assignment) on a project value: what a fresh load of that configuration gives.
func VerifLoadPipeline(p *types.Project) error {
	// (the steps of Load, in its order; called one by one so that the loader's own helper for
	// applying them can change freely)
	setDefaultShell(p)
	assignDefaultProcessValues(p)
	cloneReplicas(p)
	copyWorkingDirToProbes(p)
	if err := renderTemplates(p); err != nil {
		return err
	}
	assignExecutableAndArgs(p)
	return nil
}
