//go:build verif

package loader

import "github.com/f1bonacc1/process-compose/src/types"

// VerifLoadPipeline runs the post-merge part of Load (mutators, template rendering,
// executable assignment) on a project value: what a fresh load of that configuration gives.
func VerifLoadPipeline(p *types.Project) error {
	apply(p, setDefaultShell, assignDefaultProcessValues, cloneReplicas, copyWorkingDirToProbes)
	if err := applyWithErr(p, renderTemplates); err != nil {
		return err
	}
	apply(p, assignExecutableAndArgs)
	return nil
}
