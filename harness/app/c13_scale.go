//go:build verif

package app

import (
	"sort"
	"strconv"

	"github.com/f1bonacc1/process-compose/src/command"
	"github.com/f1bonacc1/process-compose/src/health"
	"github.com/f1bonacc1/process-compose/src/loader"
	"github.com/f1bonacc1/process-compose/src/types"
)

func vLoaded(replicas int) *types.Project {
	prj := &types.Project{LogLength: 10, Vars: types.Vars{"V": "g"},
		ShellConfig: &command.ShellConfig{ShellCommand: "sh", ShellArgument: "-c", ElevatedShellCmd: "sudo", ElevatedShellArg: "-S"},
		Processes: types.Processes{
			"p": {Command: "run {{.PC_REPLICA_NUM}} {{.V}}", Replicas: replicas, Description: "d{{.PC_REPLICA_NUM}}",
				ReadinessProbe: &health.Probe{Exec: &health.ExecProbe{Command: "check {{.PC_REPLICA_NUM}}"}}},
			"q": {Command: "other"},
		}}
	if err := loader.VerifLoadPipeline(prj); err != nil {
		verifFail("load.pipeline.failed")
	}
	return prj
}

var vScaleTargets = []int{-1, 0, 1, 2, 3, 9, 10, 11}

// C13: after a scale request to n >= 1 exactly n consistently named replicas exist, each with
// its own state, log and configuration rendered for its replica number - the same set a fresh
// load with replicas: n produces; survivors are not restarted, removed ones are terminated,
// added ones launched, other processes untouched; n < 1 and unknown names fail without effect.
func verifScaleBody(requests int) { verifScaleBodyT(requests, vScaleTargets, 12, true, false) }

func verifScaleBodyT(requests int, targets []int, maxIdx int, variants bool, withBackoff bool) {
	w := vInit()
	vBindHealth()
	r0 := []int{1, 2, 3}[verifChooseK("initial.replicas", 3)]
	prj := vLoaded(r0)
	// each initial replica either runs until stopped or has already completed (exit 0) when the
	// scale request arrives
	completed := map[string]bool{}
	nBackoff := 0 // the back-off variant of a replica has a harness of its own (Scale1Backoff)
	if withBackoff {
		nBackoff = 1
	}
	var backoff []string // replica names whose command is made to die right before the first request
	for nm, pc := range prj.Processes {
		if pc.Name != "p" {
			continue
		}
		key := "p/" + strconv.Itoa(pc.ReplicaNum)
		st := 0
		if variants {
			st = verifChooseK("completed."+key, 2+nBackoff)
		}
		switch {
		case st == 1:
			completed[key] = true
			w.behavKey[key] = &vBehav{codes: []int{0}}
		case st == 2:
			// this replica restarts for ever; its command has just died and it waits out its
			// back-off (5 s) when the scale request arrives
			pc.RestartPolicy = types.RestartPolicyConfig{Restart: types.RestartPolicyAlways, BackoffSeconds: 5}
			prj.Processes[nm] = pc
			w.behavKey[key] = &vBehav{untilStop: []bool{true}, codes: []int{1}}
			backoff = append(backoff, nm)
		}
	}
	// the final project shutdown is the default or the ordered one (it looks the replicas up
	// by their current names)
	ordered := verifChooseK("ordered.shutdown", 2) == 1
	r := vRunner(prj, ordered)
	runDone := make(chan error, 1)
	go func() { runDone <- r.Run() }()
	verifQuiesce()
	for _, nm := range backoff {
		vCrash(nm)
	}
	if len(backoff) > 0 {
		verifShape("replica.in.back-off")
		verifSettle()
	}
	cur := r0
	for k := 0; k < requests; k++ {
		n := targets[verifChooseK("scale.to."+strconv.Itoa(k), len(targets))]
		verifShape(strconv.Itoa(cur) + "->" + strconv.Itoa(n))
		// any current replica name addresses the process
		name := "p"
		if cur > 1 {
			name = (&types.ProcessConfig{Name: "p", Replicas: cur, ReplicaNum: 0}).CalculateReplicaName()
		}
		keysBefore, aliveBefore := map[string]int{}, map[string]int{}
		for i := 0; i < maxIdx; i++ {
			key := "p/" + strconv.Itoa(i)
			keysBefore[key], aliveBefore[key] = vGet(w.startKey, key), vGet(w.aliveKey, key)
		}
		err := r.ScaleProcess(name, n)
		verifQuiesce()
		if n < 1 {
			verifAssert("scale.below.one.fails", err != nil)
		} else {
			verifAssert("scale.succeeds", err == nil)
			cur = n
		}
		if variants && verifChooseK("unknown.name."+strconv.Itoa(k), 2) == 1 {
			verifAssert("unknown.name.fails", r.ScaleProcess("nope", 2) != nil)
			verifQuiesce()
		}
		// what a fresh load with replicas: cur gives
		ref := vLoaded(cur)
		st, e := r.GetProcessesState()
		if e != nil {
			verifFail("states.unavailable")
			continue
		}
		var listed []string
		for _, s := range st.States {
			listed = append(listed, s.Name)
		}
		sort.Strings(listed)
		var want []string
		for nm := range ref.Processes {
			want = append(want, nm)
		}
		sort.Strings(want)
		same := len(listed) == len(want)
		for i := 0; same && i < len(want); i++ {
			same = listed[i] == want[i]
		}
		if !same {
			verifFail("listed.replicas.differ.from.fresh.load")
			continue
		}
		for nm, rc := range ref.Processes {
			info, e1 := r.GetProcessInfo(nm)
			_, e2 := r.GetProcessState(nm)
			_, e3 := r.GetProcessLog(nm, 1, 1)
			if e1 != nil || e2 != nil || e3 != nil {
				verifFail("replica.without.state.info.or.log")
				continue
			}
			verifAssert("config.numbering", info.ReplicaNum == rc.ReplicaNum && info.Replicas == rc.Replicas && info.ReplicaName == nm && info.Name == rc.Name)
			verifAssert("config.rendered.for.own.replica", info.Command == rc.Command && info.Description == rc.Description)
			if rc.ReadinessProbe != nil {
				verifAssert("probe.rendered.for.own.replica", info.ReadinessProbe != nil && info.ReadinessProbe.Exec.Command == rc.ReadinessProbe.Exec.Command)
			}
			if rc.Name == "p" && !completed["p/"+strconv.Itoa(rc.ReplicaNum)] {
				verifAssert("replica.alive.once", vGet(w.aliveKey, "p/"+strconv.Itoa(rc.ReplicaNum)) == 1)
			}
		}
		// survivors are not restarted, added replicas are launched once, removed ones are gone
		verifAssert("bystander.untouched", vGet(w.starts, "q") == 1 && vGet(w.alive, "q") == 1)
		for i := 0; i < maxIdx; i++ {
			key := "p/" + strconv.Itoa(i)
			was, is := keysBefore[key], vGet(w.startKey, key)
			alive := vGet(w.aliveKey, key)
			switch {
			case i < cur && aliveBefore[key] == 1:
				verifAssert("survivor.not.restarted", is == was && alive == 1)
			case i < cur && completed[key]:
				verifAssert("completed.survivor.not.restarted", is == was && alive == 0)
			case i < cur:
				verifAssert("added.replica.launched.once", is == was+1 && alive == 1)
			default:
				verifAssert("removed.replica.terminated", alive == 0 && is == was)
				// a replica added later under this number is a new one (runs until stopped)
				delete(completed, key)
				w.mu.Lock()
				delete(w.behavKey, key)
				w.mu.Unlock()
			}
		}
	}
	// a replica is addressed by its current name: stopping the last one by name works
	if verifChooseK("stop.last.replica.by.name", 2) == 1 {
		last := (&types.ProcessConfig{Name: "p", Replicas: cur, ReplicaNum: cur - 1}).CalculateReplicaName()
		key := "p/" + strconv.Itoa(cur-1)
		if vGet(w.aliveKey, key) == 1 {
			verifAssert("stop.by.current.name.succeeds", r.StopProcess(last) == nil)
			verifQuiesce()
			verifAssert("stopped.replica.terminated", vGet(w.aliveKey, key) == 0)
		}
	}
	_ = r.ShutDownProject()
	<-runDone
	verifAssert("nothing.alive.at.end", vAliveTotal() == 0)
	verifReach("end")
}

func VerifC13_Scale1() { verifScaleBody(1) }
func VerifC13_Scale2() { verifScaleBody(2) }

// across the 99/100 name-width boundary (thorough): two successive requests from {99,100,101}
func VerifC13_Scale100() {
	verifUnwind(4000)
	verifScaleBodyT(2, []int{99, 100, 101}, 102, false, false)
}

// one request, each initial replica running, completed, or waiting out its restart back-off
func VerifC13_Scale1Backoff() { verifScaleBodyT(1, []int{1, 2, 3}, 12, true, true) }
