//go:build verif

package app

import (
	"sync"

	"github.com/f1bonacc1/process-compose/src/health"
	"github.com/f1bonacc1/process-compose/src/types"
)

// C01 (what the dependency wait itself must not skip): three ways in which a dependency can be
// "not where the waiter looks" while its condition is unmet.
//
//	missing.sibling   web depends on ghost (disabled: never scheduled) and on db
//	                  (process_completed_successfully, still running): whatever order the
//	                  depends_on map is visited in, web must wait for db.
//	restarted.dep     db finished with 0 once, was restarted through the API and its new
//	                  instance is still running when web (process_completed_successfully on db)
//	                  is started through the API: web waits for the instance that exists now.
//	dep.stopped/restarted.before.ready.line
//	                  web waits for db's ready log line; db is stopped (or restarted) through the
//	                  API before it prints the line: web is never launched on that account.
//	update.adds.both  a project update adds extradep (readiness probe, not ready yet) and
//	                  extra (process_healthy on extradep) in one request, whatever order the
//	                  update visits them in: extra is launched only after extradep is ready.
func VerifC01_Api2() {
	w := vInit()
	vBindHealth()
	verifBind("os.Stat", vStatDir)
	scen := []string{"missing.sibling", "restarted.dep", "update.adds.both", "dep.stopped.before.ready.line", "dep.restarted.before.ready.line", "started.dep.stopped.while.pending", "started.dep.caught.by.shutdown.while.pending", "healthy.dep.in.its.restart.back-off", "failing.dep.stopped.in.its.restart.back-off"}[verifChooseK("scenario", 9)]
	verifShape(scen)
	var mu sync.Mutex
	condMet := false // ground truth of the one condition under test
	gated := "web"
	if scen == "update.adds.both" {
		gated = "extra"
	}
	w.onStart = func(name string, attempt int) {
		if name != gated {
			return
		}
		mu.Lock()
		ok := condMet
		mu.Unlock()
		if !ok {
			verifFail("launched.before.condition.met")
		}
	}
	w.onExit = func(name string, code int) {
		if name == "db" && scen != "update.adds.both" {
			mu.Lock()
			// the condition is about the instance that exists now: met when no instance of db is
			// alive and the last one ended with 0
			condMet = code == 0
			mu.Unlock()
		}
	}
	prevStart := w.onStart
	w.onStart = func(name string, attempt int) {
		if name == "db" {
			mu.Lock()
			condMet = false // a new instance: it has not finished
			mu.Unlock()
		}
		prevStart(name, attempt)
	}
	runDone := make(chan error, 1)
	switch scen {
	case "missing.sibling":
		verifSymbolicMapOrderIn("waitIfNeeded")
		verifSymbolicMapOrder(true)
		db := vConf("db", nil)
		ghost := vConf("ghost", nil)
		ghost.Disabled = true
		web := vConf("web", map[string]string{"ghost": types.ProcessConditionStarted, "db": types.ProcessConditionCompletedSuccessfully})
		w.behav["db"] = &vBehav{untilStop: []bool{true}}
		w.behav["web"] = &vBehav{untilStop: []bool{true}}
		r := vRunner(vProject(db, ghost, web), false)
		go func() { runDone <- r.Run() }()
		verifQuiesce()
		verifAssert("only.the.dependency.runs", vAliveNames() == "db")
		_ = r.ShutDownProject()
		<-runDone
	case "restarted.dep":
		db := vConf("db", nil)
		web := vConf("web", map[string]string{"db": types.ProcessConditionCompletedSuccessfully})
		web.Disabled = true // started later, through the API
		keep := vConf("keep", nil)
		w.behav["db"] = &vBehav{codes: []int{0}, untilStop: []bool{false, true}}
		w.behav["web"] = &vBehav{untilStop: []bool{true}}
		w.behav["keep"] = &vBehav{untilStop: []bool{true}}
		r := vRunner(vProject(db, web, keep), false)
		go func() { runDone <- r.Run() }()
		verifQuiesce() // db has finished with 0
		verifAssert("db.finished.first", vGet(w.exits, "db") == 1 && vGet(w.alive, "db") == 0)
		_ = r.RestartProcess("db")
		verifQuiesce() // its new instance runs
		verifAssert("db.runs.again", vGet(w.alive, "db") == 1)
		_ = r.StartProcess("web")
		verifQuiesce()
		verifAssert("web.waits.for.the.new.instance", vGet(w.alive, "web") == 0)
		_ = r.ShutDownProject()
		<-runDone
	case "dep.stopped.before.ready.line", "dep.restarted.before.ready.line":
		db := vConf("db", nil)
		db.ReadyLogLine = "ready"
		web := vConf("web", map[string]string{"db": types.ProcessConditionLogReady})
		w.behav["db"] = &vBehav{untilStop: []bool{true}, lines: []string{"booting"}}
		w.behav["web"] = &vBehav{untilStop: []bool{true}}
		r := vRunner(vProject(db, web), false)
		go func() { runDone <- r.Run() }()
		verifQuiesce() // db runs and has not printed its ready line, web waits
		verifAssert("web.waits", vGet(w.alive, "web") == 0 && vGet(w.alive, "db") == 1)
		if scen == "dep.stopped.before.ready.line" {
			_ = r.StopProcess("db")
		} else {
			_ = r.RestartProcess("db")
		}
		verifQuiesce()
		verifAssert("web.not.launched.without.the.ready.line", vGet(w.starts, "web") == 0)
		_ = r.ShutDownProject()
		<-runDone
	case "started.dep.stopped.while.pending", "started.dep.caught.by.shutdown.while.pending":
		// base runs; mid waits for base to complete; web waits for mid to be started (released
		// from its dependencies). mid is stopped while it is still waiting - by the API or by a
		// project shutdown: it was never released, web must not be launched
		base := vConf("base", nil)
		mid := vConf("mid", map[string]string{"base": types.ProcessConditionCompleted})
		web := vConf("web", map[string]string{"mid": types.ProcessConditionStarted})
		w.behav["base"] = &vBehav{untilStop: []bool{true}}
		w.behav["mid"] = &vBehav{untilStop: []bool{true}}
		w.behav["web"] = &vBehav{untilStop: []bool{true}}
		r := vRunner(vProject(base, mid, web), false)
		go func() { runDone <- r.Run() }()
		verifQuiesce()
		verifAssert("only.base.runs", vAliveNames() == "base")
		if scen == "started.dep.stopped.while.pending" {
			_ = r.StopProcess("mid")
			verifQuiesce()
			verifAssert("web.not.launched", vGet(w.starts, "web") == 0)
		}
		_ = r.ShutDownProject()
		<-runDone
		verifAssert("web.never.launched", vGet(w.starts, "web") == 0)
	case "healthy.dep.in.its.restart.back-off":
		// dep (readiness probe, restart always) became ready, then its command died: it is in
		// its restart back-off, not ready. web (process_healthy on dep) is started through the
		// API at that moment: it must not be launched on the strength of the readiness of the
		// previous incarnation
		dep := vConf("dep", nil)
		dep.ReadinessProbe = &health.Probe{Exec: &health.ExecProbe{Command: "check"}}
		dep.RestartPolicy = types.RestartPolicyConfig{Restart: types.RestartPolicyAlways, BackoffSeconds: 5}
		web := vConf("web", map[string]string{"dep": types.ProcessConditionHealthy})
		web.Disabled = true
		keep := vConf("keep", nil)
		w.behav["dep"] = &vBehav{untilStop: []bool{true}, codes: []int{1}}
		w.behav["web"] = &vBehav{untilStop: []bool{true}}
		w.behav["keep"] = &vBehav{untilStop: []bool{true}}
		r := vRunner(vProject(dep, web, keep), false)
		go func() { runDone <- r.Run() }()
		verifQuiesce()
		verifAssert("probe.delivered", vProbeCheck("dep_ready_probe", true))
		verifSettle()
		vCrash("dep") // the command dies by itself (exit code 1)
		verifSettle() // dep is waiting out its back-off: no command alive, not ready
		verifAssert("dep.is.down", vGet(w.alive, "dep") == 0)
		_ = r.StartProcess("web")
		verifSettle()
		verifAssert("web.not.launched.while.dep.is.down", vGet(w.starts, "web") == 0)
		_ = r.ShutDownProject()
		<-runDone
	case "failing.dep.stopped.in.its.restart.back-off":
		// db (restart on_failure) fails with exit code 3 and is stopped through the API while it
		// waits out its back-off: its last command did not exit with 0, web
		// (process_completed_successfully on db) must not be launched
		db := vConf("db", nil)
		db.RestartPolicy = types.RestartPolicyConfig{Restart: types.RestartPolicyOnFailure, BackoffSeconds: 5}
		web := vConf("web", map[string]string{"db": types.ProcessConditionCompletedSuccessfully})
		keep := vConf("keep", nil)
		w.behav["db"] = &vBehav{untilStop: []bool{true}, codes: []int{3}}
		w.behav["web"] = &vBehav{untilStop: []bool{true}}
		w.behav["keep"] = &vBehav{untilStop: []bool{true}}
		r := vRunner(vProject(db, web, keep), false)
		go func() { runDone <- r.Run() }()
		verifQuiesce()
		vCrash("db") // exits with 3 by itself
		verifSettle()
		verifAssert("db.in.back-off", vGet(w.alive, "db") == 0 && vGet(w.exits, "db") == 1)
		_ = r.StopProcess("db")
		verifQuiesce()
		verifAssert("web.not.launched.after.a.failed.dependency", vGet(w.starts, "web") == 0)
		_ = r.ShutDownProject()
		<-runDone
	case "update.adds.both":
		verifSymbolicMapOrderIn("UpdateProject")
		verifSymbolicMapOrderIn("GetProcesses")
		verifSymbolicMapOrder(true)
		keep := vConf("keep", nil)
		w.behav["keep"] = &vBehav{untilStop: []bool{true}}
		w.behav["extradep"] = &vBehav{untilStop: []bool{true}}
		w.behav["extra"] = &vBehav{untilStop: []bool{true}}
		old := vLoadedProject(types.Processes{"keep": keep})
		r := vRunner(old, false)
		go func() { runDone <- r.Run() }()
		verifQuiesce()
		extradep := vConf("extradep", nil)
		extradep.ReadinessProbe = &health.Probe{Exec: &health.ExecProbe{Command: "check"}}
		extra := vConf("extra", map[string]string{"extradep": types.ProcessConditionHealthy})
		np := vLoadedProject(types.Processes{"keep": keep, "extradep": extradep, "extra": extra})
		_, _ = r.UpdateProject(np)
		verifQuiesce()
		verifAssert("dependent.not.launched.yet", vGet(w.alive, "extra") == 0)
		verifAssert("dependency.launched", vGet(w.alive, "extradep") == 1)
		mu.Lock()
		condMet = true
		mu.Unlock()
		verifAssert("probe.delivered", vProbeCheck("extradep_ready_probe", true))
		verifQuiesce()
		verifAssert("dependent.launched.once.ready", vGet(w.alive, "extra") == 1)
		verifReach("launched.after.ready")
		_ = r.ShutDownProject()
		<-runDone
	}
	verifReach("end")
}
