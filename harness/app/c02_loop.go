//go:build verif

package app

import (
	"sync"

	"github.com/f1bonacc1/process-compose/src/command"
	"github.com/f1bonacc1/process-compose/src/pclog"
	"github.com/f1bonacc1/process-compose/src/types"
)

func vMkProc(conf *types.ProcessConfig) *Process {
	state := types.NewProcessState(conf)
	return NewProcess(withProcConf(conf), withProcState(state), withProcLog(pclog.NewLogBuffer(10)),
		withLogger(pclog.NewNilLogger()), withShellConfig(command.ShellConfig{ShellCommand: "sh", ShellArgument: "-c"}))
}

var vPolicies = []string{types.RestartPolicyNo, types.RestartPolicyAlways, types.RestartPolicyOnFailure, types.RestartPolicyExitOnFailure}

// C02 (restart loop of one process, with a stop request at any instant):
// every relaunch is justified by the policy and the exit it follows, never exceeds
// max_restarts, never comes sooner than the back-off, never follows a completed stop request;
// without a stop request the reported restart count equals the number of relaunches.
func VerifC02_Loop() {
	w := vInit()
	policy := vPolicies[verifChoose(len(vPolicies))]
	max := verifChoose(3)         // 0 (unlimited), 1, 2
	backoff := verifChoose(2) * 2 // 0 (-> 1s) or 2
	withStop := verifChoose(2) == 1
	conf := vConf("p", nil)
	conf.RestartPolicy = types.RestartPolicyConfig{Restart: policy, MaxRestarts: max, BackoffSeconds: backoff}
	// exit codes of up to 4 attempts: 0 or 3 (choice per attempt); attempt 4 and later run until stopped
	w.behav["p"] = &vBehav{codes: []int{0, 0, 0, 0}, untilStop: []bool{false, false, false, false, true}, runSecs: 3 * verifChooseK("run.seconds", 2)}
	for k := 0; k < 4; k++ {
		w.behav["p"].codes[k] = 3 * verifChooseK("code:p#"+string(rune('0'+k)), 2)
	}
	var mu sync.Mutex
	stopRequested, stopReturned, forcedEnd := false, false, false
	lastExitClk, lastExitCode := 0, 0
	minBackoff := 1000000000
	if backoff > 1 {
		minBackoff = backoff * 1000000000
	}
	w.onExit = func(name string, code int) {
		mu.Lock()
		lastExitClk, lastExitCode = verifClk(), code
		mu.Unlock()
	}
	w.onStart = func(name string, attempt int) {
		mu.Lock()
		defer mu.Unlock()
		if stopReturned {
			verifFail("launch.after.stop.returned")
		}
		if attempt == 0 {
			return
		}
		verifReach("relaunch")
		just := policy == types.RestartPolicyAlways || (policy == types.RestartPolicyOnFailure && lastExitCode != 0)
		verifAssert("relaunch.justified.by.policy", just)
		if max > 0 {
			verifAssert("relaunch.within.max_restarts", attempt <= max)
		}
		verifAssert("relaunch.not.before.backoff", verifClk()-lastExitClk >= minBackoff)
	}
	proc := vMkProc(&conf)
	done := make(chan int)
	go func() { done <- proc.run() }()
	if withStop {
		go func() {
			verifYield("api:stop")
			verifShape("stop@" + vAt("p"))
			mu.Lock()
			stopRequested = true
			mu.Unlock()
			_ = proc.shutDownNoRestart()
			mu.Lock()
			stopReturned = true
			mu.Unlock()
			verifEvent("stop returned")
		}()
	} else {
		// a configuration that restarts for ever reaches attempt 4, which runs until stopped:
		// end it once nothing else can happen
		go func() {
			verifQuiesce()
			if vAliveTotal() > 0 {
				forcedEnd = true
				_ = proc.shutDownNoRestart()
			}
		}()
	}
	<-done
	verifQuiesce()
	if !withStop && !forcedEnd {
		verifAssert("restarts.reported", proc.procState.Restarts == vGet(w.starts, "p")-1)
		// an exit that the policy says must be followed by a relaunch was followed by one
		starts := vGet(w.starts, "p")
		wantMore := (policy == types.RestartPolicyAlways || (policy == types.RestartPolicyOnFailure && lastExitCode != 0)) && (max == 0 || starts-1 < max)
		verifAssert("relaunch.when.policy.says.so", !wantMore)
	}
	_ = stopRequested
	verifAssert("nothing.alive.at.end", vAliveTotal() == 0)
	verifReach("end")
}
