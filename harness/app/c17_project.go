//go:build verif

package app

import (
	"errors"
	"strings"

	"github.com/f1bonacc1/process-compose/src/types"
)

// stub of runCmd (symgo only; natively the real shell runs the env commands): "echo X" prints X,
// anything else fails
func vRunEnvCmd(cmd string) (string, error) {
	if strings.HasPrefix(cmd, "echo ") {
		return cmd[len("echo "):], nil
	}
	return "", errors.New("exit status 3")
}

func vEnvOf(env []string, key string) string {
	val := "<unset>"
	for _, e := range env {
		if strings.HasPrefix(e, key+"=") {
			val = e[len(key)+1:]
		}
	}
	return val
}

// C17 (whole runner): every command - at its first launch and at a relaunch - receives its own
// per-process variables, the global ones (also those produced by env_cmds) and its own
// PC_PROC_NAME, whatever other processes define.
func VerifC17_Project() {
	w := vInit()
	verifBind("github.com/f1bonacc1/process-compose/src/app.runCmd", vRunEnvCmd)
	nGlobal := 1 + verifChoose(4) // 1..4 global variables (the slice capacity depends on it)
	a := vConf("alpha", nil)
	a.Environment = types.Environment{"WHO=alpha", "ROLE=role-alpha"}
	a.RestartPolicy = types.RestartPolicyConfig{Restart: types.RestartPolicyAlways, MaxRestarts: 1}
	b := vConf("beta", nil)
	b.Environment = types.Environment{"WHO=beta"}
	w.behav["alpha"] = &vBehav{codes: []int{0}, untilStop: []bool{false, true}}
	w.behav["beta"] = &vBehav{untilStop: []bool{true}}
	prj := vProject(a, b)
	for i := 0; i < nGlobal; i++ {
		prj.Environment = append(prj.Environment, "G"+string(rune('0'+i))+"=g")
	}
	// three env_cmds, one of which fails: whatever order they are run in, the variables of the
	// two that succeed reach every command, the failing one defines nothing
	verifSymbolicMapOrderIn("prepareEnvCmds")
	verifSymbolicMapOrder(true)
	prj.EnvCommands = types.EnvCmd{"STAMP": "echo stamp", "BROKEN": "exit 3", "STAMP2": "echo stamp2"}
	launches := 0
	w.onStart = func(name string, attempt int) {
		env := w.startEnv[name]
		launches++
		verifAssert("own.per.process.value", vEnvOf(env, "WHO") == name)
		if name == "alpha" {
			verifAssert("own.second.variable", vEnvOf(env, "ROLE") == "role-alpha")
		} else {
			verifAssert("no.foreign.variable", vEnvOf(env, "ROLE") == "<unset>")
		}
		verifAssert("global.variable", vEnvOf(env, "G0") == "g")
		verifAssert("env_cmds.variable", vEnvOf(env, "STAMP") == "stamp")
		verifAssert("env_cmds.variable.next.to.a.failing.command", vEnvOf(env, "STAMP2") == "stamp2")
		verifAssert("failing.env_cmd.defines.nothing", vEnvOf(env, "BROKEN") == "<unset>")
		verifAssert("own.PC_PROC_NAME", vEnvOf(env, "PC_PROC_NAME") == name)
	}
	r := vRunner(prj, false)
	runDone := make(chan error, 1)
	go func() { runDone <- r.Run() }()
	verifQuiesce() // alpha exited once and was relaunched after its back-off
	verifAssert("three.launches", launches == 3)
	_ = r.ShutDownProject()
	<-runDone
	verifReach("end")
}
