//go:build verif

package app

import (
	"github.com/f1bonacc1/process-compose/src/types"
)

var verifNodeNames = []string{"p0", "p1", "p2", "p3"}

// C12 (kernel): the reverse-dependency table used by the ordered shutdown contains, for
// every running process j, exactly the running processes that depend on j.
func verifRevDepsBody(n int) {
	verifSymbolicMapOrder(true)
	r := &ProjectRunner{runningProcesses: map[string]*Process{}}
	running := make([]bool, n)
	dep := make([][]bool, n)
	for i := 0; i < n; i++ {
		dep[i] = make([]bool, n)
		deps := types.DependsOnConfig{}
		for j := 0; j < n; j++ {
			if i != j && verifBool("dep") {
				dep[i][j] = true
				deps[verifNodeNames[j]] = types.ProcessDependency{Condition: types.ProcessConditionStarted}
			}
		}
		if verifBool("running") {
			running[i] = true
			conf := &types.ProcessConfig{Name: verifNodeNames[i], ReplicaName: verifNodeNames[i], Replicas: 1, DependsOn: deps}
			st := types.NewProcessState(conf)
			st.Status = types.ProcessStateRunning
			r.runningProcesses[verifNodeNames[i]] = &Process{procConf: conf, procState: st}
		}
	}
	rev := r.runningProcessesReverseDependencies() // REAL code
	for j := 0; j < n; j++ {
		fanin := 0
		for i := 0; i < n; i++ {
			if running[i] && running[j] && dep[i][j] {
				fanin++
			}
		}
		if fanin >= 2 {
			verifShape("fan-in>=2")
		}
	}
	for j := 0; j < n; j++ {
		for i := 0; i < n; i++ {
			_, has := rev[verifNodeNames[j]][verifNodeNames[i]]
			want := running[i] && running[j] && dep[i][j]
			if want {
				verifAssert("missing-dependent", has)
			} else {
				verifAssert("spurious-dependent", !has)
			}
		}
	}
	verifReach("end")
}

func VerifC12_RevDeps3() { verifRevDepsBody(3) }
func VerifC12_RevDeps4() { verifRevDepsBody(4) }
