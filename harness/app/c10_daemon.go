//go:build verif

package app

import (
	"github.com/f1bonacc1/process-compose/src/health"
	"github.com/f1bonacc1/process-compose/src/types"
)

// C10 (daemon + liveness): a daemon whose liveness probe fails failure_threshold times in a row
// is treated as exited and handled by its restart policy - whenever the fatal result arrives:
// while the launcher is still running (Launching) or after the daemon was launched.
func VerifC10_Daemon() {
	w := vInit()
	vBindHealth()
	policy := []string{types.RestartPolicyNo, types.RestartPolicyAlways}[verifChooseK("policy", 2)]
	early := verifChooseK("fatal.while.launching", 2) == 1
	conf := vConf("d", nil)
	conf.IsDaemon = true
	conf.LaunchTimeout = 5
	conf.RestartPolicy = types.RestartPolicyConfig{Restart: policy, MaxRestarts: 1}
	conf.LivenessProbe = &health.Probe{Exec: &health.ExecProbe{Command: "alive"}, FailureThreshold: 2}
	// the launcher command exits 0 by itself: at once, or (early case) only when nothing else can
	// happen, i.e. after the probe results have been delivered
	lat := 0
	if early {
		lat = 1
		verifShape("fatal.while.launching")
	}
	w.behav["d"] = &vBehav{codes: []int{0}, latency: lat}
	proc := vMkProc(&conf)
	done := make(chan int, 1)
	go func() { done <- proc.run() }()
	<-w.started
	<-vProbeStarted // the liveness checks have begun (after the initial delay)
	if !early {
		verifQuiesce() // launcher gone, daemon Launched
		verifAssert("daemon.launched", proc.getStatusName() == types.ProcessStateLaunched)
	}
	d1 := vProbeCheck("d_live_probe", false)
	d2 := vProbeCheck("d_live_probe", false) // failure_threshold-th consecutive failure: fatal
	verifAssert("probe.results.delivered", d1 && d2)
	verifQuiesce()
	if policy == types.RestartPolicyAlways {
		verifAssert("daemon.relaunched.by.policy", vGet(w.starts, "d") == 2)
	} else {
		verifAssert("daemon.treated.as.exited", proc.getStatusName() == types.ProcessStateCompleted && vGet(w.starts, "d") == 1)
	}
	if proc.getStatusName() != types.ProcessStateCompleted {
		_ = proc.shutDownNoRestart()
		proc.notifyDaemonStopped()
	}
	verifQuiesce()
	verifReach("end")
}
