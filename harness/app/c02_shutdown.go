//go:build verif

package app

import (
	"sync"

	"github.com/f1bonacc1/process-compose/src/types"
)

// C02 (project shutdown): once a project shutdown has been requested no process is
// relaunched - also a process whose command exits by itself while the shutdown is still
// busy with another process (here: a slow one with a shutdown timeout, or an ordered
// shutdown waiting for a slow dependent).
func VerifC02_Shutdown() {
	w := vInit()
	ordered := verifChooseK("ordered", 2) == 1
	// "a_slow" sorts (and, unordered, is stopped) before "worker"; it ignores SIGTERM and is
	// killed after its shutdown timeout of 2s, which keeps the shutdown busy
	slow := vConf("a_slow", nil)
	slow.ShutDownParams.ShutDownTimeout = 2
	worker := vConf("worker", nil)
	worker.RestartPolicy = types.RestartPolicyConfig{Restart: types.RestartPolicyAlways, BackoffSeconds: 1}
	if ordered {
		// ordered: a_slow depends on worker, so worker is stopped only after a_slow has gone
		slow.DependsOn["worker"] = types.ProcessDependency{Condition: types.ProcessConditionStarted}
	}
	w.behav["a_slow"] = &vBehav{untilStop: []bool{true}, ignoreTerm: true}
	// the worker's first command ends by itself, at once or only when nothing else can happen
	// (that is: while the shutdown waits for a_slow); later attempts run until stopped
	w.behav["worker"] = &vBehav{codes: []int{0}, untilStop: []bool{false, true}, latency: 2}
	var mu sync.Mutex
	requested, stopPhase := false, false
	w.onStop = func(name string, sig int) {
		mu.Lock()
		stopPhase = true
		mu.Unlock()
	}
	exitInStopPhase := false
	w.onExit = func(name string, code int) {
		mu.Lock()
		if name == "worker" && stopPhase {
			exitInStopPhase = true
		}
		mu.Unlock()
	}
	w.onStart = func(name string, attempt int) {
		mu.Lock()
		defer mu.Unlock()
		if attempt > 0 && requested {
			if exitInStopPhase {
				verifShape("exit.while.shutdown.stops.others")
			} else {
				verifShape("exit.before.first.stop")
			}
			verifFail("relaunch.after.shutdown.requested")
		}
	}
	r := vRunner(vProject(slow, worker), ordered)
	runDone := make(chan error, 1)
	go func() { runDone <- r.Run() }()
	// request the shutdown as soon as both commands have been launched
	<-w.started
	<-w.started
	mu.Lock()
	requested = true
	mu.Unlock()
	_ = r.ShutDownProject()
	verifAssert("nothing.alive.after.shutdown", vAliveTotal() == 0)
	<-runDone
	verifQuiesce()
	verifReach("end")
}
