//go:build verif

package app

import (
	"errors"
	"sync"

	"github.com/f1bonacc1/process-compose/src/health"
	"github.com/f1bonacc1/process-compose/src/types"
)

// C04 (kernel): the runner's end-of-process decision: a shutdown is triggered, and the
// project's exit code recorded, iff (exit code != 0 and policy exit_on_failure) or exit_on_end;
// a skip triggers iff exit_on_skipped and records 1.
func VerifC04_ExitCode() {
	// (ShutDownProject ends with the cancellation of the application context: that call is the
	// witness that the end of this process brought the project down)
	broughtDown := false
	r := &ProjectRunner{runningProcesses: map[string]*Process{}, project: vProject(), cancelAppFn: func() { broughtDown = true }}
	code := verifInt("exit_code")
	policy := verifStr("policy", 16)
	onEnd := verifBool("exit_on_end")
	onSkipped := verifBool("exit_on_skipped")
	conf := &types.ProcessConfig{Name: "p", ReplicaName: "p", RestartPolicy: types.RestartPolicyConfig{Restart: policy, ExitOnEnd: onEnd, ExitOnSkipped: onSkipped}}
	if verifChoose(2) == 0 {
		verifShape("end")
		r.onProcessEnd(code, conf) // REAL code
		trigger := verifOr(verifAnd(code != 0, policy == types.RestartPolicyExitOnFailure), onEnd)
		verifObserveInt("project_exit_code", r.exitCode)
		verifAssert("end.exit.code", r.exitCode == verifIteInt(trigger, code, 0))
		verifAssert("project.brought.down.iff.trigger", verifOr(verifAnd(trigger, broughtDown), verifAnd(verifNot(trigger), !broughtDown)))
	} else {
		verifShape("skipped")
		r.onProcessSkipped(conf) // REAL code
		verifObserveInt("project_exit_code", r.exitCode)
		verifAssert("skip.exit.code", r.exitCode == verifIteInt(onSkipped, 1, 0))
		verifAssert("project.brought.down.iff.exit_on_skipped", verifOr(verifAnd(onSkipped, broughtDown), verifAnd(verifNot(onSkipped), !broughtDown)))
	}
	verifReach("end")
}

// C04 (project): Run() returns once every process is terminal and not while a command is
// alive; success unless a trigger occurred; on a trigger everything else is shut down and the
// reported code is that of a process whose own exit (or skip) triggered - never the code of a
// process that was merely terminated by the shutdown.
func VerifC04_Project() {
	w := vInit()
	names := []string{"p0", "p1", "p2"}
	confs := make([]types.ProcessConfig, 3)
	ownCodes := map[int]bool{} // codes that a triggering process may legitimately report
	anyTriggerPossible := false
	for i := range names {
		confs[i] = vConf(names[i], nil)
		b := &vBehav{}
		switch verifChooseK("behaviour."+names[i], 3) {
		case 0:
			b.codes = []int{0}
		case 1:
			b.codes = []int{3 + i} // distinct non-zero codes 3,4,5
		case 2:
			b.untilStop = []bool{true}
		}
		w.behav[names[i]] = b
		switch verifChooseK("flag."+names[i], 4) {
		case 1:
			confs[i].RestartPolicy.Restart = types.RestartPolicyExitOnFailure
			if len(b.codes) > 0 && b.codes[0] != 0 {
				ownCodes[b.codes[0]] = true
				anyTriggerPossible = true
			}
		case 2:
			confs[i].RestartPolicy.ExitOnEnd = true
			if len(b.codes) > 0 {
				ownCodes[b.codes[0]] = true
				anyTriggerPossible = true
			}
		case 3:
			confs[i].RestartPolicy.ExitOnSkipped = true
		}
	}
	// one optional dependency p2 -> p0 so that skips occur: completed_successfully, or healthy on a
	// p0 with a readiness probe that may also fail before its launch (bad working directory)
	switch verifChooseK("edge.p2.p0", 3) {
	case 1:
		confs[2].DependsOn["p0"] = types.ProcessDependency{Condition: types.ProcessConditionCompletedSuccessfully}
		if confs[2].RestartPolicy.ExitOnSkipped && len(w.behav["p0"].codes) > 0 && w.behav["p0"].codes[0] != 0 {
			ownCodes[1] = true
			anyTriggerPossible = true
		}
	case 2:
		vBindHealth()
		confs[2].DependsOn["p0"] = types.ProcessDependency{Condition: types.ProcessConditionHealthy}
		confs[0].ReadinessProbe = &health.Probe{Exec: &health.ExecProbe{Command: "check"}}
		if verifChooseK("p0.bad.working.dir", 2) == 1 {
			confs[0].WorkingDir = "/verif-no-such-dir"
			verifBind("os.Stat", vStatMissing)
			// p0 fails before its launch with exit code 1: that is its own code if it triggers
			if confs[0].RestartPolicy.Restart == types.RestartPolicyExitOnFailure || confs[0].RestartPolicy.ExitOnEnd {
				ownCodes[1] = true
				anyTriggerPossible = true
			}
		}
		// no probe result is ever delivered: p2 can only be skipped (exit_on_skipped reports 1)
		if confs[2].RestartPolicy.ExitOnSkipped {
			ownCodes[1] = true
			anyTriggerPossible = true
		}
	}
	var mu sync.Mutex
	runReturned, externalShutdown := false, false
	w.onStart = func(name string, attempt int) {
		mu.Lock()
		defer mu.Unlock()
		if runReturned {
			verifFail("launch.after.run.returned")
		}
	}
	// the shutdown a trigger starts is the default one or the ordered one (--ordered-shutdown)
	ordered := verifChooseK("ordered.shutdown", 2) == 1
	r := vRunner(vProject(confs...), ordered)
	runDone := make(chan error, 1)
	go func() { runDone <- r.Run() }()
	// processes that run until stopped and nothing triggers: end them when nothing else can happen
	go func() {
		verifQuiesce()
		mu.Lock()
		ret := runReturned
		mu.Unlock()
		if !ret && vAliveTotal() > 0 {
			mu.Lock()
			externalShutdown = true
			mu.Unlock()
			_ = r.ShutDownProject()
		}
	}()
	err := <-runDone
	mu.Lock()
	runReturned = true
	mu.Unlock()
	verifAssert("nothing.alive.when.run.returns", vAliveTotal() == 0)
	var ee *ExitError
	if externalShutdown {
		// the harness itself asked for the shutdown (nothing else could happen any more): which
		// code an exit_on_end process terminated by it should report is not defined by the
		// statement, so the code is not judged on these paths
		verifReach("external.shutdown")
	} else if errors.As(err, &ee) {
		verifReach("nonzero.exit")
		verifAssert("code.only.with.trigger", anyTriggerPossible)
		if !ownCodes[ee.Code] {
			verifFail("code.of.a.non.triggering.process")
		}
	} else {
		verifAssert("error.is.ExitError.or.nil", err == nil)
	}
	verifQuiesce()
	verifReach("end")
}

// C04 (the exit code is the triggering command's own): p0 exits with 0 and carries exit_on_end
// or exit_on_failure; p2 waits for p0 to become healthy and gives up when p0 ends. Whatever the
// order in which p0's end and p2's giving up are processed, the project reports p0's own exit
// code: success.
func VerifC04_ReadyWaiter() {
	w := vInit()
	vBindHealth()
	p0 := vConf("p0", nil)
	p0.ReadinessProbe = &health.Probe{Exec: &health.ExecProbe{Command: "check"}}
	trigger := verifChooseK("p0.flag", 2) == 0
	if trigger {
		verifShape("p0:exit_on_end")
		p0.RestartPolicy.ExitOnEnd = true
	} else {
		verifShape("p0:exit_on_failure")
		p0.RestartPolicy.Restart = types.RestartPolicyExitOnFailure
	}
	p2 := vConf("p2", map[string]string{"p0": types.ProcessConditionHealthy})
	w.behav["p0"] = &vBehav{codes: []int{0}}
	w.behav["p2"] = &vBehav{codes: []int{0}}
	r := vRunner(vProject(p0, p2), false)
	err := r.Run()
	verifAssert("project.succeeds", err == nil)
	st, e := r.GetProcessState("p0")
	if e != nil {
		verifFail("no.state")
	} else {
		verifAssert("p0.reports.its.own.exit.code", st.ExitCode == 0)
	}
	verifQuiesce()
	verifReach("end")
}

// C04 (a trigger while the project is still starting up): p0 cannot be started and has
// exit_on_failure; the shutdown it triggers may arrive while Run() is still registering the other
// processes. Run() returns - with p0's exit code - and nothing is left alive.
func VerifC04_EarlyTrigger() {
	w := vInit()
	p0 := vConf("p0", nil)
	p0.RestartPolicy.Restart = types.RestartPolicyExitOnFailure
	w.behav["p0"] = &vBehav{startErr: true}
	p1 := vConf("p1", nil)
	p2 := vConf("p2", nil)
	w.behav["p1"] = &vBehav{untilStop: []bool{true}}
	w.behav["p2"] = &vBehav{untilStop: []bool{true}}
	r := vRunner(vProject(p0, p1, p2), false)
	err := r.Run() // must return (a hang is reported by the engine)
	var ee *ExitError
	if errors.As(err, &ee) {
		verifAssert("exit.code.of.the.failed.start", ee.Code == 1)
	} else {
		verifFail("failed.start.with.exit_on_failure.reports.no.error")
	}
	verifAssert("nothing.alive.when.run.returns", vAliveTotal() == 0)
	verifQuiesce()
	verifReach("end")
}
