//go:build verif

package app

import (
	"github.com/f1bonacc1/process-compose/src/health"
	"github.com/f1bonacc1/process-compose/src/types"
)

// C10 (probe results and the process): Ready only after a successful check, Not Ready after a
// failed one, readiness forgotten on restart/stop; at the failure_threshold-th consecutive
// failure the command is stopped exactly once and then relaunched iff the restart policy is
// always or on_failure.
func VerifC10_Coupling() {
	w := vInit()
	vBindHealth()
	policy := []string{types.RestartPolicyNo, types.RestartPolicyOnFailure, types.RestartPolicyAlways}[verifChooseK("policy", 3)]
	const thr = 2
	conf := vConf("p", nil)
	conf.RestartPolicy = types.RestartPolicyConfig{Restart: policy, MaxRestarts: 1}
	conf.ReadinessProbe = &health.Probe{Exec: &health.ExecProbe{Command: "check"}, FailureThreshold: thr}
	w.behav["p"] = &vBehav{untilStop: []bool{true}}
	proc := vMkProc(&conf)
	done := make(chan int, 1)
	go func() { done <- proc.run() }()
	<-w.started
	verifQuiesce()
	verifAssert("health.unknown.before.any.check", proc.procState.Health == types.ProcessHealthUnknown)
	cf := 0
	for k := 0; k < 4; k++ {
		ok := verifChooseK("check."+string(rune('0'+k)), 2) == 1
		stopsBefore, startsBefore := vGet(w.stops, "p"), vGet(w.starts, "p")
		aliveBefore := vGet(w.alive, "p")
		if !vProbeCheck("p_ready_probe", ok) {
			// the prober is not running: legitimate only when the process has ended; every
			// incarnation of the command - also one relaunched by the policy - is probed
			verifAssert("probe.runs.while.the.command.is.alive", aliveBefore == 0)
			break
		}
		verifQuiesce()
		if ok {
			cf = 0
			verifAssert("ready.after.success", proc.procState.Health == types.ProcessHealthReady)
			verifAssert("success.does.not.stop", vGet(w.stops, "p") == stopsBefore)
			continue
		}
		cf++
		if cf < thr {
			verifAssert("not.ready.after.failure", proc.procState.Health == types.ProcessHealthNotReady)
			verifAssert("below.threshold.does.not.stop", vGet(w.stops, "p") == stopsBefore)
			continue
		}
		// fatal: threshold-th consecutive failure
		verifReach("fatal")
		verifShape("policy=" + policy)
		verifAssert("stopped.exactly.once.at.threshold", vGet(w.stops, "p") == stopsBefore+1)
		if policy == types.RestartPolicyNo {
			verifAssert("no.relaunch.with.policy.no", vGet(w.starts, "p") == startsBefore && vGet(w.alive, "p") == 0)
		} else if startsBefore <= 1 {
			verifAssert("relaunched.by.policy", vGet(w.starts, "p") == startsBefore+1 && vGet(w.alive, "p") == 1)
			verifAssert("readiness.forgotten.after.restart", proc.procState.Health == types.ProcessHealthUnknown)
		}
		cf = 0
	}
	if vAliveTotal() > 0 {
		_ = proc.shutDownNoRestart()
	}
	<-done
	verifQuiesce()
	verifAssert("readiness.forgotten.after.stop", proc.procState.Health != types.ProcessHealthReady)
	verifReach("end")
}
