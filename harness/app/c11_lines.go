//go:build verif

package app

import (
	"io"

	"github.com/f1bonacc1/process-compose/src/pclog"
	"github.com/f1bonacc1/process-compose/src/types"
)

// vScriptPipe serves a fixed byte stream: under symgo through the ReadString contract of
// bufio (data up to and including the delimiter, or the rest with io.EOF), natively through
// Read with the real bufio on top.
type vScriptPipe struct {
	lines []string // newline-free contents of the complete lines
	frag  string   // newline-free final fragment (may be empty)
	pos   int
	buf   []byte
	init  bool
}

func (p *vScriptPipe) Close() error { return nil }
func (p *vScriptPipe) ReadString(d byte) (string, error) {
	if p.pos < len(p.lines) {
		p.pos++
		return p.lines[p.pos-1] + "\n", nil
	}
	if p.pos == len(p.lines) {
		p.pos++
		return p.frag, io.EOF
	}
	return "", io.EOF
}
func (p *vScriptPipe) Read(b []byte) (int, error) {
	if !p.init {
		p.init = true
		for _, l := range p.lines {
			p.buf = append(p.buf, []byte(l+"\n")...)
		}
		p.buf = append(p.buf, []byte(p.frag)...)
	}
	if len(p.buf) == 0 {
		return 0, io.EOF
	}
	n := copy(b, p.buf)
	p.buf = p.buf[n:]
	return n, nil
}

// C11 (kernel): everything the stream delivers reaches the in-memory log line by line, once,
// in order, without the trailing newline - including empty lines and a final line that is not
// terminated by a newline; the end of the stream is signalled exactly once.
func VerifC11_Lines() {
	k := verifChoose(4) // 0..3 complete lines
	pipe := &vScriptPipe{}
	for i := 0; i < k; i++ {
		pipe.lines = append(pipe.lines, verifStrB("line", 2, "ab "))
	}
	pipe.frag = verifStrB("fragment", 2, "ab ")
	if pipe.frag != "" {
		verifShape("unterminated.final.line")
	}
	conf := vConf("p", nil)
	conf.ReadyLogLine = "zz" // never matches: readiness is not the subject here
	p := &Process{procConf: &conf, procState: types.NewProcessState(&conf), logBuffer: pclog.NewLogBuffer(10), logger: pclog.NewNilLogger()}
	done := make(chan struct{})
	p.handleOutput(pipe, "stdout", p.handleInfo, done) // REAL code
	select {
	case <-done:
	default:
		verifFail("end.of.stream.not.signalled")
	}
	want := append([]string{}, pipe.lines...)
	if pipe.frag != "" {
		want = append(want, pipe.frag)
	}
	got := p.logBuffer.GetLogRange(100, 0)
	verifObserveInt("lines.logged", len(got))
	verifAssert("line.count", len(got) == len(want))
	if len(got) == len(want) {
		for i := range want {
			verifAssert("line.content", got[i] == want[i])
		}
	}
	verifReach("end")
}
