//go:build verif

package app

import (
	"sync"
	"strings"
	"os"
	"io"
	"strconv"

	"github.com/f1bonacc1/process-compose/src/pclog"
	"github.com/f1bonacc1/process-compose/src/types"
)

// vScriptPipe serves a fixed byte stream: under symgo through the ReadString contract of
// bufio (data up to and including the delimiter, or the rest with io.EOF), natively through
// Read with the real bufio on top.
type vScriptPipe struct {
	lines []string // newline-free contents of the complete lines
	frag  string   // newline-free final fragment (may be empty)
	pos   int
	buf   []byte
	init  bool
}

func (p *vScriptPipe) Close() error { return nil }
func (p *vScriptPipe) ReadString(d byte) (string, error) {
	if p.pos < len(p.lines) {
		p.pos++
		return p.lines[p.pos-1] + "\n", nil
	}
	if p.pos == len(p.lines) {
		p.pos++
		return p.frag, io.EOF
	}
	return "", io.EOF
}
func (p *vScriptPipe) Read(b []byte) (int, error) {
	if !p.init {
		p.init = true
		for _, l := range p.lines {
			p.buf = append(p.buf, []byte(l+"\n")...)
		}
		p.buf = append(p.buf, []byte(p.frag)...)
	}
	if len(p.buf) == 0 {
		return 0, io.EOF
	}
	n := copy(b, p.buf)
	p.buf = p.buf[n:]
	return n, nil
}

// C11 (kernel): everything the stream delivers reaches the in-memory log line by line, once,
// in order, without the trailing newline - including empty lines and a final line that is not
// terminated by a newline; the end of the stream is signalled exactly once.
func VerifC11_Lines() {
	k := verifChoose(4) // 0..3 complete lines
	pipe := &vScriptPipe{}
	for i := 0; i < k; i++ {
		pipe.lines = append(pipe.lines, verifStrB("line", 2, "ab "))
	}
	pipe.frag = verifStrB("fragment", 2, "ab ")
	if pipe.frag != "" {
		verifShape("unterminated.final.line")
	}
	conf := vConf("p", nil)
	conf.ReadyLogLine = "zz" // never matches: readiness is not the subject here
	p := &Process{procConf: &conf, procState: types.NewProcessState(&conf), logBuffer: pclog.NewLogBuffer(10), logger: pclog.NewNilLogger()}
	done := make(chan struct{})
	p.handleOutput(pipe, "stdout", p.handleInfo, done) // REAL code
	select {
	case <-done:
	default:
		verifFail("end.of.stream.not.signalled")
	}
	want := append([]string{}, pipe.lines...)
	if pipe.frag != "" {
		want = append(want, pipe.frag)
	}
	got := p.logBuffer.GetLogRange(100, 0)
	verifObserveInt("lines.logged", len(got))
	verifAssert("line.count", len(got) == len(want))
	if len(got) == len(want) {
		for i := range want {
			verifAssert("line.content", got[i] == want[i])
		}
	}
	verifReach("end")
}

// C11 (in-memory log up to the configured length): a process that writes more lines than the
// log holds - across the point where the buffer drops its oldest lines - still has its most
// recent log_length lines there, each once, in order, the very last one included.
func VerifC11_Window() {
	verifUnwind(1000)
	size := []int{0, 1, 3}[verifChooseK("log.length", 3)]
	// around the first and the second trimming point of the buffer (every 100 lines beyond the length)
	extra := []int{99, 100, 101, 102, 200, 201, 202}[verifChooseK("lines.beyond.length", 7)]
	n := size + extra
	pipe := &vScriptPipe{}
	for i := 0; i < n; i++ {
		pipe.lines = append(pipe.lines, "l"+strconv.Itoa(i))
	}
	conf := vConf("p", nil)
	conf.ReadyLogLine = "zz"
	p := &Process{procConf: &conf, procState: types.NewProcessState(&conf), logBuffer: pclog.NewLogBuffer(size), logger: pclog.NewNilLogger()}
	done := make(chan struct{})
	p.handleOutput(pipe, "stdout", p.handleInfo, done) // REAL code
	got := p.logBuffer.GetLogRange(size, 0)            // the most recent log_length lines
	verifObserveInt("lines.returned", len(got))
	verifAssert("window.has.log_length.lines", len(got) == size)
	for i := 0; i < len(got) && i < size; i++ {
		if got[i] != "l"+strconv.Itoa(n-size+i) {
			verifShape("length=" + strconv.Itoa(size) + ",lines=" + strconv.Itoa(n))
			verifFail("most.recent.lines.not.in.the.log.in.order")
			break
		}
	}
	// and the very last line written is the newest entry of the log, whatever the length
	all := p.logBuffer.GetLogRange(n+1000, 0)
	verifAssert("last.line.is.the.newest.entry", len(all) >= 1 && all[len(all)-1] == "l"+strconv.Itoa(n-1))
	verifAssert("never.unboundedly.more", len(all) <= size+100)
	verifReach("end")
}

// C11 (both streams, at the moment the process has ended): a command writes two lines to stdout
// and two to stderr and exits. However slowly the supervisor's readers get at them, when Run()
// returns - the process is reported ended - all four lines are in the in-memory log, each once
// and in the order of its stream.
func VerifC11_Streams() {
	w := vInit()
	conf := vConf("p", nil)
	w.behav["p"] = &vBehav{codes: []int{0}, lines: []string{"out-0", "out-1"}, errLines: []string{"err-0", "err-1"}}
	vStderrReaderLast = verifChooseK("stderr.reader.scheduled.last", 2) == 1
	r := vRunner(vProject(conf), false)
	err := r.Run() // REAL: returns once the process has ended
	verifAssert("project.succeeds", err == nil)
	logs, e := r.GetProcessLog("p", 100, 0)
	if e != nil {
		verifFail("no.log")
		return
	}
	pos := map[string]int{}
	for i, l := range logs {
		if _, dup := pos[l]; dup {
			verifShape("line=" + l)
			verifFail("line.logged.twice")
		}
		pos[l] = i + 1
	}
	for _, l := range []string{"out-0", "out-1", "err-0", "err-1"} {
		if pos[l] == 0 {
			verifShape("missing=" + l)
			verifFail("line.not.in.the.log.when.the.process.has.ended")
			break
		}
	}
	verifAssert("stdout.order", pos["out-0"] < pos["out-1"] || pos["out-1"] == 0)
	verifAssert("stderr.order", pos["err-0"] < pos["err-1"] || pos["err-1"] == 0)
	verifReach("end")
}

// vLogSink stands for a log file under symgo (the real file natively)
type vLogSink struct {
	mu     sync.Mutex
	data   []byte
	closed bool
}

func (s *vLogSink) Write(p []byte) (int, error) {
	s.mu.Lock()
	defer s.mu.Unlock()
	if s.closed {
		return 0, os.ErrClosed
	}
	s.data = append(s.data, p...)
	return len(p), nil
}
func (s *vLogSink) Close() error {
	s.mu.Lock()
	s.closed = true
	s.mu.Unlock()
	return nil
}

var vLogSinks map[string]*vLogSink

func vGetLogWriter(l *pclog.PCLog, filePath string, config *types.LoggerConfig) (io.WriteCloser, error) {
	s := &vLogSink{}
	vLogSinks[filePath] = s
	return s, nil
}

// C11 (unified log file): with a project-level log file every line of every process is in that
// file once Run() has returned - also the lines written after some other process (here: one
// replica of a replicated process) has already ended.
func VerifC11_UnifiedLog() {
	w := vInit()
	vLogSinks = map[string]*vLogSink{}
	verifBind("(*github.com/f1bonacc1/process-compose/src/pclog.PCLog).getWriter", vGetLogWriter)
	path := "/verif-log/all.log"
	if verifNative() {
		dir, err := os.MkdirTemp("", "verifc11u")
		if err != nil {
			verifAssume(false)
		}
		defer os.RemoveAll(dir)
		path = dir + "/all.log"
	}
	replicas := 1 + verifChooseK("worker.replicas", 2)
	var confs []types.ProcessConfig
	for i := 0; i < replicas; i++ {
		c := vConf("worker", nil)
		c.Replicas, c.ReplicaNum = replicas, i
		c.ReplicaName = c.CalculateReplicaName()
		confs = append(confs, c)
		w.behavKey["worker/"+strconv.Itoa(i)] = &vBehav{codes: []int{0}, lines: []string{"worker-" + strconv.Itoa(i) + "-done"}}
	}
	// the writer keeps writing after the workers have ended
	writer := vConf("writer", nil)
	w.behav["writer"] = &vBehav{codes: []int{0}, lines: []string{"writer-1", "writer-2"}, errLines: []string{"writer-err"}, latency: 1}
	confs = append(confs, writer)
	// the writer's stderr line is read late: after the workers have ended
	vStderrReaderLast = true
	prj := vProject(confs...)
	prj.LogLocation = path
	r := vRunner(prj, false)
	err := r.Run() // REAL: opens the unified logger, runs everything, closes the logger
	verifAssert("project.succeeds", err == nil)
	var content string
	if verifNative() {
		b, e := os.ReadFile(path)
		if e != nil {
			verifFail("log.file.unreadable")
		}
		content = string(b)
	} else if s := vLogSinks[path]; s != nil {
		content = string(s.data)
		verifAssert("file.closed.when.run.returns", s.closed)
	} else {
		verifFail("unified.log.never.opened")
	}
	want := []string{"writer-1", "writer-2", "writer-err"}
	for i := 0; i < replicas; i++ {
		want = append(want, "worker-"+strconv.Itoa(i)+"-done")
	}
	for _, l := range want {
		if strings.Count(content, l) != 1 {
			verifShape("line=" + l)
			verifFail("line.not.in.the.unified.log.exactly.once")
			break
		}
	}
	verifAssert("per.process.order", strings.Index(content, "writer-1") < strings.Index(content, "writer-2"))
	verifReach("end")
}
