//go:build verif

package app

import (
	"sync"

	"github.com/f1bonacc1/process-compose/src/types"
)

// C12 (project): with ordered shutdown no process receives its stop signal while a process
// that depends on it - and was running when the shutdown began - is still alive; the
// shutdown completes; unrelated processes are not ordered.
func VerifC12_Project() {
	w := vInit()
	names := []string{"p0", "p1", "p2", "p3"}
	var deps [][2]int // i depends on k
	pendingShape, manualShape := false, false
	switch verifChooseK("shape", 6) {
	case 0:
		verifShape("chain")
		deps = [][2]int{{1, 0}, {2, 1}}
	case 1:
		verifShape("fan-in")
		deps = [][2]int{{1, 0}, {2, 0}}
	case 2:
		verifShape("fan-out")
		deps = [][2]int{{2, 0}, {2, 1}}
	case 3:
		verifShape("diamond")
		deps = [][2]int{{1, 0}, {2, 0}, {3, 1}, {3, 2}}
	case 4:
		// p1 waits for p0 to complete: while p0 runs, p1 is Pending when the shutdown begins
		verifShape("pending.dependent")
		deps = [][2]int{{1, 0}}
		pendingShape = true
	case 5:
		// p1 is disabled in the configuration and started by hand once p0 runs: it is a
		// running dependent of p0 like any other
		verifShape("hand.started.dependent")
		deps = [][2]int{{1, 0}}
		manualShape = true
	}
	n := 3
	if len(deps) == 4 {
		n = 4
	}
	confs := make([]types.ProcessConfig, n)
	for i := 0; i < n; i++ {
		confs[i] = vConf(names[i], nil)
		// each process either runs until stopped or has already completed when the shutdown begins;
		// a running one dies at once or only when nothing else can happen
		if verifChooseK("completed."+names[i], 2) == 1 {
			w.behav[names[i]] = &vBehav{codes: []int{0}}
		} else {
			w.behav[names[i]] = &vBehav{untilStop: []bool{true}, latency: 2}
		}
	}
	for _, d := range deps {
		cond := types.ProcessConditionStarted
		if pendingShape {
			cond = types.ProcessConditionCompleted
		}
		confs[d[0]].DependsOn[names[d[1]]] = types.ProcessDependency{Condition: cond}
	}
	var mu sync.Mutex
	shutdownBegan := false
	runningAtShutdown := map[string]bool{}
	unorderedSeen := false
	stopsSeen := map[string]bool{}
	w.onStop = func(name string, sig int) {
		mu.Lock()
		began := shutdownBegan
		mu.Unlock()
		if !began {
			return
		}
		for _, d := range deps {
			if names[d[1]] == name && runningAtShutdown[names[d[0]]] && vGet(w.alive, names[d[0]]) > 0 {
				verifFail("signalled.while.dependent.alive")
			}
		}
		mu.Lock()
		for other := range stopsSeen {
			if vGet(w.alive, other) > 0 {
				unorderedSeen = true // two processes signalled before either has exited
			}
		}
		stopsSeen[name] = true
		mu.Unlock()
	}
	if manualShape {
		confs[1].Disabled = true
	}
	r := vRunner(vProject(confs...), true)
	runDone := make(chan error, 1)
	go func() { runDone <- r.Run() }()
	verifQuiesce() // everything launched, the completed ones are done
	if manualShape {
		_ = r.StartProcess(names[1])
		verifQuiesce()
	}
	for i := 0; i < n; i++ {
		runningAtShutdown[names[i]] = vGet(w.alive, names[i]) > 0
	}
	// optionally one dependent has been asked to stop just before and is still dying
	if len(deps) > 0 && verifChooseK("a.dependent.is.already.stopping", 2) == 1 {
		first := names[deps[len(deps)-1][0]]
		if runningAtShutdown[first] {
			verifShape("dependent.already.terminating")
			w.behav[first].latency = 1
			stopped := make(chan int, 1)
			go func() { _ = r.StopProcess(first); stopped <- 1 }()
			verifSettle()
		}
	}
	mu.Lock()
	shutdownBegan = true
	mu.Unlock()
	_ = r.ShutDownProject()
	verifAssert("nothing.alive.after.shutdown", vAliveTotal() == 0)
	<-runDone
	mu.Lock()
	if unorderedSeen {
		verifReach("unrelated.stopped.concurrently")
	}
	mu.Unlock()
	verifReach("end")
}
