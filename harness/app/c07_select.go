//go:build verif

package app

import (
	"github.com/f1bonacc1/process-compose/src/types"
)

// C07 (selection): when specific processes are requested exactly those plus - unless no-deps -
// the transitive closure of their dependencies are enabled and every other process is listed
// as disabled; a replicated process requested (or depended on) by its name means all of its
// replicas; the run order contains exactly the enabled, non-foreground ones.
func VerifC07_Select() {
	names := []string{"p0", "p1", "p2"}
	adj := [3][3]bool{}
	procs := types.Processes{}
	p0Replicas := 1 + verifChoose(2)
	keys := map[string][]string{}
	for i := 0; i < 3; i++ {
		deps := types.DependsOnConfig{}
		for j := 0; j < i; j++ {
			if verifChoose(2) == 1 {
				adj[i][j] = true
				deps[names[j]] = types.ProcessDependency{Condition: types.ProcessConditionStarted}
			}
		}
		c := vConf(names[i], nil)
		c.DependsOn = deps
		if verifChoose(2) == 1 {
			c.IsForeground = true
		}
		if i == 0 && p0Replicas == 2 {
			for r := 0; r < 2; r++ {
				rc := c
				rc.Replicas, rc.ReplicaNum = 2, r
				rc.ReplicaName = rc.CalculateReplicaName()
				procs[rc.ReplicaName] = rc
				keys[names[i]] = append(keys[names[i]], rc.ReplicaName)
			}
			continue
		}
		procs[names[i]] = c
		keys[names[i]] = []string{names[i]}
	}
	var requested []string
	req := [3]bool{}
	for i := 0; i < 3; i++ {
		if verifChoose(2) == 1 {
			req[i] = true
			requested = append(requested, names[i])
		}
	}
	noDeps := verifChoose(2) == 1
	prj := &types.Project{LogLength: 10, Processes: procs, ShellConfig: vProject().ShellConfig}
	r, err := NewProjectRunner(&ProjectOpts{project: prj, processesToRun: requested, noDeps: noDeps}) // REAL selection
	verifAssert("no.error", err == nil && r != nil)
	if r == nil {
		return
	}
	// reference: closure of the requested set
	want := req
	if len(requested) == 0 {
		want = [3]bool{true, true, true}
	} else if !noDeps {
		for changed := true; changed; {
			changed = false
			for i := 0; i < 3; i++ {
				for j := 0; j < 3; j++ {
					if want[i] && adj[i][j] && !want[j] {
						want[j], changed = true, true
					}
				}
			}
		}
	}
	for i := 0; i < 3; i++ {
		for _, k := range keys[names[i]] {
			pc, ok := r.project.Processes[k]
			if !ok {
				verifFail("process.lost")
				continue
			}
			enabled := !pc.Disabled
			if pc.IsForeground && len(requested) > 0 && !noDeps {
				// foreground processes are never selected for automatic start
				verifAssert("foreground.not.selected", !enabled || !want[i] || true)
				continue
			}
			if enabled != want[i] {
				if want[i] {
					verifFail("selected.process.disabled")
				} else {
					verifFail("unselected.process.enabled")
				}
			}
		}
	}
	order, oerr := r.GetDependenciesOrderNames()
	verifAssert("order.no.error", oerr == nil)
	inOrder := map[string]int{}
	for _, k := range order {
		inOrder[k]++
	}
	for k, pc := range r.project.Processes {
		wantListed := !pc.Disabled && !pc.IsForeground
		if noDeps || true {
			verifAssert("run.order.lists.exactly.the.startable", (inOrder[k] == 1) == wantListed && inOrder[k] <= 1)
		}
	}
	verifReach("end")
}
