//go:build verif

package app

import (
	"strconv"
	"sync"

	"github.com/f1bonacc1/process-compose/src/types"
)

// labels of the life-cycle code at which a request can be made to arrive
var vProcLabels = []string{"runproc.beforeRegister", "runproc.goroutine", "runproc.afterWaitDeps", "run.entry", "run.checkTerm",
	"run.beforeLaunch", "run.afterWait", "run.beforeRestartable", "run.restarting", "run.afterBackoff", "run.beforeEnd",
	"end.beforeState", "end.beforeDone"}

// vTriggerAt returns a channel that is closed when process `proc` reaches one of the
// life-cycle labels (which one is a choice), or immediately (last alternative).
// If the chosen point is never reached the trigger fires once nothing else can happen.
func vTriggerAt(key string, procs []string) (chan struct{}, *string) {
	ch := make(chan struct{})
	n := len(procs) * len(vProcLabels)
	k := verifChooseK(key, n+1)
	what := new(string)
	*what = "immediately"
	if k == n {
		close(ch)
		return ch, what
	}
	proc, label := procs[k/len(vProcLabels)], vProcLabels[k%len(vProcLabels)]
	*what = "quiescence"
	var once sync.Once
	prev := VerifYieldHook
	VerifYieldHook = func(p, l string) {
		if p == proc && l == label {
			once.Do(func() { *what = label; verifEvent("trigger " + proc + ":" + label); close(ch) })
		}
		prev(p, l)
	}
	go func() {
		verifQuiesce()
		once.Do(func() { close(ch) })
	}()
	return ch, what
}

// C03: whenever a project shutdown is requested, by the time the call returns every launched
// command has exited and nothing is reported running; afterwards nothing is launched and
// Run() returns.
func VerifC03_Project() {
	w := vInit()
	shape := verifChoose(3)
	policy := []string{types.RestartPolicyNo, types.RestartPolicyAlways}[verifChoose(2)]
	a := vConf("a", nil)
	a.RestartPolicy.Restart = policy
	var b types.ProcessConfig
	switch shape {
	case 0:
		verifEvent("shape independent")
		b = vConf("b", nil)
	case 1:
		verifEvent("shape b.after.a.started")
		b = vConf("b", map[string]string{"a": types.ProcessConditionStarted})
	case 2:
		verifEvent("shape b.after.a.completed")
		b = vConf("b", map[string]string{"a": types.ProcessConditionCompleted})
	}
	// a exits by itself (code 0) or runs until stopped; b runs until stopped
	aNatural := verifChooseK("a.exits", 2) == 1
	w.behav["a"] = &vBehav{untilStop: []bool{!aNatural, true}, codes: []int{0}}
	w.behav["b"] = &vBehav{untilStop: []bool{true}}
	var mu sync.Mutex
	shutReturned := false
	w.onStart = func(name string, attempt int) {
		mu.Lock()
		defer mu.Unlock()
		if shutReturned {
			verifFail("launch.after.shutdown.returned")
		}
	}
	r := vRunner(vProject(a, b), false)
	trig, what := vTriggerAt("shutdown.at", []string{"a", "b"})
	runDone := make(chan error, 1)
	go func() { runDone <- r.Run() }()
	go func() {
		<-trig
		verifYield("api:shutdown")
		verifShape("shutdown@" + *what)
		_ = r.ShutDownProject()
		mu.Lock()
		shutReturned = true
		mu.Unlock()
		verifEvent("shutdown returned")
		if n := vAliveTotal(); n != 0 {
			verifFail("alive.after.shutdown.returned")
		}
		st, err := r.GetProcessesState()
		if err == nil {
			for _, s := range st.States {
				if s.IsRunning {
					verifFail("reported.running.after.shutdown.returned")
				}
			}
		}
		verifReach("shutdown.returned")
	}()
	<-runDone
	verifReach("run.returned")
	verifQuiesce()
	verifAssert("nothing.alive.at.end", vAliveTotal() == 0)
	verifReach("end")
}

// C03 (shutdown while a process is already being stopped): a stop request on a process that
// is slow to die is followed by the project shutdown; when the shutdown returns that process
// must have exited too.
func VerifC03_AlreadyStopping() {
	w := vInit()
	ordered := verifChooseK("ordered", 2) == 1
	a := vConf("a", nil)
	b := vConf("b", nil)
	// a dies only when nothing else can happen; b at once
	w.behav["a"] = &vBehav{untilStop: []bool{true}, latency: 1}
	w.behav["b"] = &vBehav{untilStop: []bool{true}}
	r := vRunner(vProject(a, b), ordered)
	runDone := make(chan error, 1)
	go func() { runDone <- r.Run() }()
	verifQuiesce()
	stopDone := make(chan error, 1)
	go func() { stopDone <- r.StopProcess("a") }()
	verifYield("client:shutdown") // the stop request runs first (or concurrently, by the delay bound)
	_ = r.ShutDownProject()
	if n := vAliveTotal(); n != 0 {
		verifShape("alive:" + vAliveNames())
		verifFail("alive.after.shutdown.returned")
	}
	<-stopDone
	<-runDone
	verifQuiesce()
	verifReach("end")
}

// C03 (daemon): a project shutdown also ends a launched daemon - whose run loop waits for the
// notification that the daemon is gone - whether its shutdown command succeeds or fails;
// afterwards Run() returns.
func VerifC03_Daemon() {
	w := vInit()
	cmdOutcome := []string{"exit 0", "exit 1", "sleep 30"}[verifChooseK("shutdown.command", 3)]
	verifShape("shutdown.command:" + cmdOutcome)
	d := vConf("d", nil)
	d.IsDaemon = true
	d.ShutDownParams = types.ShutDownParams{ShutDownCommand: cmdOutcome, ShutDownTimeout: 2}
	w.behav["d"] = &vBehav{codes: []int{0}} // the launcher exits 0: the daemon is launched
	// ... before the shutdown arrives, or only afterwards (the shutdown finds it Launching)
	stillLaunching := verifChooseK("launcher.still.running.at.shutdown", 2) == 1
	if stillLaunching {
		verifShape("shutdown.while.launching")
		w.behav["d"].latency = 1
	}
	other := vConf("o", nil)
	w.behav["o"] = &vBehav{untilStop: []bool{true}}
	verifBind("github.com/f1bonacc1/process-compose/src/command.BuildCommandShellArgContext", vBuildShutCmd)
	verifBind("(*github.com/f1bonacc1/process-compose/src/command.CmdWrapper).SetEnv", vShutCmdSetEnv)
	verifBind("(*github.com/f1bonacc1/process-compose/src/command.CmdWrapper).SetDir", vShutCmdSetDir)
	verifBind("(*github.com/f1bonacc1/process-compose/src/command.CmdWrapper).Run", vShutCmdRun)
	r := vRunner(vProject(d, other), false)
	runDone := make(chan error, 1)
	go func() { runDone <- r.Run() }()
	if stillLaunching {
		verifSettle()
		st, _ := r.GetProcessState("d")
		verifAssert("daemon.launching", st != nil && st.Status == types.ProcessStateLaunching)
	} else {
		verifQuiesce()
		st, _ := r.GetProcessState("d")
		verifAssert("daemon.launched", st != nil && st.Status == types.ProcessStateLaunched)
	}
	_ = r.ShutDownProject()
	verifAssert("nothing.alive.after.shutdown", vAliveTotal() == 0)
	<-runDone // a hang here is the violation
	verifReach("end")
}

// C03 (after scaling): replicas that were renamed or added by a scale request are part of the
// project like any other process: a project shutdown - default or ordered - ends every one of
// them, nothing is reported running, nothing is launched afterwards and Run() returns.
func VerifC03_AfterScale() {
	w := vInit()
	vBindHealth()
	r0 := []int{1, 2}[verifChooseK("initial.replicas", 2)]
	n := []int{1, 2, 3, 10}[verifChooseK("scale.to", 4)]
	ordered := verifChooseK("ordered", 2) == 1
	verifShape(strconv.Itoa(r0) + "->" + strconv.Itoa(n))
	prj := vLoaded(r0)
	var mu sync.Mutex
	shutReturned := false
	w.onStart = func(name string, attempt int) {
		mu.Lock()
		defer mu.Unlock()
		if shutReturned {
			verifFail("launch.after.shutdown.returned")
		}
	}
	r := vRunner(prj, ordered)
	runDone := make(chan error, 1)
	go func() { runDone <- r.Run() }()
	verifQuiesce()
	name := "p"
	if r0 > 1 {
		name = (&types.ProcessConfig{Name: "p", Replicas: r0, ReplicaNum: 0}).CalculateReplicaName()
	}
	verifAssert("scale.succeeds", r.ScaleProcess(name, n) == nil)
	verifQuiesce()
	verifAssert("replicas.running.before.shutdown", vGet(w.alive, "q") == 1 && vAliveTotal() == n+1)
	_ = r.ShutDownProject()
	mu.Lock()
	shutReturned = true
	mu.Unlock()
	if k := vAliveTotal(); k != 0 {
		verifShape("alive:" + vAliveNames())
		verifFail("alive.after.shutdown.returned")
	}
	st, err := r.GetProcessesState()
	if err == nil {
		for _, s := range st.States {
			if s.IsRunning {
				verifFail("reported.running.after.shutdown.returned")
			}
		}
	}
	<-runDone
	verifQuiesce()
	verifAssert("nothing.alive.at.end", vAliveTotal() == 0)
	verifReach("end")
}

// C03 (processes started by hand): a disabled (or foreground) process that was started through
// the API is part of the running project: a project shutdown - default or ordered - ends it
// like any other process, nothing is reported running and Run() returns.
func VerifC03_ManualStart() {
	w := vInit()
	ordered := verifChooseK("ordered", 2) == 1
	dependsOnBase := verifChooseK("manual.depends.on.base", 2) == 1
	base := vConf("base", nil)
	var manual types.ProcessConfig
	if dependsOnBase {
		verifShape("manual.depends.on.base")
		manual = vConf("manual", map[string]string{"base": types.ProcessConditionStarted})
	} else {
		manual = vConf("manual", nil)
	}
	manual.Disabled = true
	w.behav["base"] = &vBehav{untilStop: []bool{true}}
	w.behav["manual"] = &vBehav{untilStop: []bool{true}}
	var mu sync.Mutex
	shutReturned := false
	w.onStart = func(name string, attempt int) {
		mu.Lock()
		defer mu.Unlock()
		if shutReturned {
			verifFail("launch.after.shutdown.returned")
		}
	}
	r := vRunner(vProject(base, manual), ordered)
	runDone := make(chan error, 1)
	go func() { runDone <- r.Run() }()
	verifQuiesce()
	verifAssert("manual.start.succeeds", r.StartProcess("manual") == nil)
	verifQuiesce()
	verifAssert("both.run", vGet(w.alive, "base") == 1 && vGet(w.alive, "manual") == 1)
	_ = r.ShutDownProject()
	mu.Lock()
	shutReturned = true
	mu.Unlock()
	if k := vAliveTotal(); k != 0 {
		verifShape("alive:" + vAliveNames())
		verifFail("alive.after.shutdown.returned")
	}
	st, err := r.GetProcessesState()
	if err == nil {
		for _, s := range st.States {
			if s.IsRunning {
				verifFail("reported.running.after.shutdown.returned")
			}
		}
	}
	<-runDone
	verifQuiesce()
	verifReach("end")
}
