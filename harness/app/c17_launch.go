//go:build verif

package app

import (
	"os"
	"strconv"
	"strings"

	"github.com/f1bonacc1/process-compose/src/types"
)

var verifInherited []string

func verifEnviron() []string { return verifInherited }

// verifSetInherited makes `env` the environment process-compose itself inherited:
// under symgo os.Environ is bound to it, natively the real environment is replaced.
func verifSetInherited(env []string) {
	verifInherited = env
	verifBind("os.Environ", verifEnviron)
	if verifNative() {
		os.Clearenv()
		for _, e := range env {
			kv := strings.SplitN(e, "=", 2)
			os.Setenv(kv[0], kv[1])
		}
	}
}

var verifLaunchKeys = []string{"A", "PC_PROC_NAME", "PC_REPLICA_NUM"}

func verifLayer(tag string, max int, keys []string) ([]string, []string, []string) {
	n := verifChoose(max + 1)
	var env, ks, vs []string
	for i := 0; i < n; i++ {
		k := keys[verifChoose(len(keys))]
		v := verifStrB(tag+".value", 1, "xy")
		env = append(env, k+"="+v)
		ks = append(ks, k)
		vs = append(vs, v)
	}
	return env, ks, vs
}

func verifLookupLast(env []string, key string) (string, bool) {
	val, ok := "", false
	for _, e := range env {
		if strings.HasPrefix(e, key+"=") {
			val, ok = e[len(key)+1:], true
		}
	}
	return val, ok
}

func verifLastKV(ks, vs []string, key string) (string, bool) {
	val, ok := "", false
	for i := range ks {
		if ks[i] == key {
			val, ok = vs[i], true
		}
	}
	return val, ok
}

// C17 (launch): the environment handed to exec (last duplicate wins) carries PC_PROC_NAME and
// PC_REPLICA_NUM of this replica, and for every other key per-process > global > inherited.
func VerifC17_Launch() {
	inh, ik, iv := verifLayer("inherited", 1, verifLaunchKeys)
	glob, gk, gv := verifLayer("global", 1, verifLaunchKeys[:1])
	per, pk, pv := verifLayer("process", 1, verifLaunchKeys[:1])
	for _, k := range ik {
		if k != "A" {
			verifShape("inherited-PC_*")
			break
		}
	}
	verifSetInherited(inh)
	rn := verifIntRange("replica_num", 0, 99)
	conf := &types.ProcessConfig{Name: "proc", ReplicaName: "proc-x", Replicas: 100, ReplicaNum: rn, Environment: per, WorkingDir: "/wd"}
	p := &Process{procConf: conf, procState: &types.ProcessState{}, globalEnv: glob}

	env := p.getProcessEnvironment() // REAL code

	name, ok := verifLookupLast(env, "PC_PROC_NAME")
	verifAssert("PC_PROC_NAME.own", verifAnd(ok, name == "proc"))
	num, ok := verifLookupLast(env, "PC_REPLICA_NUM")
	verifAssert("PC_REPLICA_NUM.own", verifAnd(ok, num == strconv.Itoa(rn)))
	want, wok := verifLastKV(pk, pv, "A")
	if !wok {
		want, wok = verifLastKV(gk, gv, "A")
	}
	if !wok {
		want, wok = verifLastKV(ik, iv, "A")
	}
	got, gok := verifLookupLast(env, "A")
	verifAssert("precedence.present", gok == wok)
	if gok && wok {
		verifAssert("precedence.value", got == want)
	}
	verifReach("end")
}
