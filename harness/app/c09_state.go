//go:build verif

package app

import (
	"github.com/f1bonacc1/process-compose/src/health"
	"sync"

	"github.com/f1bonacc1/process-compose/src/types"
)

// C09 (kernel): the derived fields follow the status: is_running iff Running/Launching/
// Launched, a Skipped or Error process has a non-zero exit code, health is forgotten on
// Restarting/Launching/Terminating.
func VerifC09_State() {
	status := verifStr("status", 12)
	code := verifIntRange("exit_code", 0, 255)
	conf := vConf("p", nil)
	st := types.NewProcessState(&conf)
	st.ExitCode = code
	st.Health = types.ProcessHealthReady
	p := &Process{procConf: &conf, procState: st}
	p.setState(status) // REAL code (setState + onStateChange)
	p.updateProcState() // REAL code
	running := verifOr(status == types.ProcessStateRunning, verifOr(status == types.ProcessStateLaunching, status == types.ProcessStateLaunched))
	verifAssert("is_running.iff.running.states", st.IsRunning == running)
	verifAssert("status.stored", st.Status == status)
	if status == types.ProcessStateSkipped {
		verifShape("Skipped")
		verifAssert("skipped.nonzero.exit", st.ExitCode != 0)
	}
	if status == types.ProcessStateError {
		verifShape("Error")
		verifAssert("error.nonzero.exit", st.ExitCode != 0)
	}
	forget := verifOr(status == types.ProcessStateRestarting, verifOr(status == types.ProcessStateLaunching, status == types.ProcessStateTerminating))
	if forget {
		verifAssert("health.forgotten", st.Health == types.ProcessHealthUnknown)
	} else {
		verifAssert("health.kept", st.Health == types.ProcessHealthReady)
	}
	verifReach("end")
}

// legal transitions of the reported status (statement of C09; self loops are not transitions)
var vLegal = map[string][]string{
	types.ProcessStatePending:     {types.ProcessStateRunning, types.ProcessStateLaunching, types.ProcessStateSkipped, types.ProcessStateTerminating, types.ProcessStateError, types.ProcessStateCompleted},
	types.ProcessStateRunning:     {types.ProcessStateRestarting, types.ProcessStateTerminating, types.ProcessStateCompleted, types.ProcessStateError},
	types.ProcessStateLaunching:   {types.ProcessStateLaunched, types.ProcessStateError, types.ProcessStateTerminating, types.ProcessStateRestarting, types.ProcessStateCompleted},
	types.ProcessStateLaunched:    {types.ProcessStateRestarting, types.ProcessStateTerminating, types.ProcessStateCompleted},
	types.ProcessStateRestarting:  {types.ProcessStateRunning, types.ProcessStateLaunching, types.ProcessStateCompleted, types.ProcessStateTerminating},
	types.ProcessStateTerminating: {types.ProcessStateCompleted, types.ProcessStateRestarting, types.ProcessStateSkipped, types.ProcessStateError},
}

type vMonitor struct {
	mu        sync.Mutex
	cur       map[string]string
	startReq  map[string]bool // an explicit start/restart request is pending for the process
	stopReq   map[string]bool
	relaunch  map[string]int
}

func vNewMonitor(names ...string) *vMonitor {
	m := &vMonitor{cur: map[string]string{}, startReq: map[string]bool{}, stopReq: map[string]bool{}, relaunch: map[string]int{}}
	for _, n := range names {
		m.cur[n] = types.ProcessStatePending
	}
	VerifStateHook = m.onState
	return m
}

func (m *vMonitor) onState(proc, state string) {
	m.mu.Lock()
	defer m.mu.Unlock()
	from := m.cur[proc]
	m.cur[proc] = state
	if from == state {
		return
	}
	terminal := from == types.ProcessStateCompleted || from == types.ProcessStateSkipped || from == types.ProcessStateError
	if terminal {
		if m.startReq[proc] {
			m.startReq[proc] = false
			return
		}
		verifShape(from + "->" + state)
		verifFail("illegal.transition.from.terminal.state")
		return
	}
	for _, to := range vLegal[from] {
		if to == state {
			return
		}
	}
	verifShape(from + "->" + state)
	verifFail("illegal.transition")
}

// C09 (project): every status write is checked against the legal transitions, an observer
// reads the public state at arbitrary instants (terminal status => no command alive), and at
// quiescence the report agrees with reality.
func VerifC09_Project() {
	w := vInit()
	mon := vNewMonitor("p0", "p1")
	p0 := vConf("p0", nil)
	b0 := &vBehav{}
	switch verifChooseK("behaviour.p0", 5) {
	case 0:
		b0.codes = []int{0}
	case 1:
		b0.codes = []int{3}
	case 2:
		b0.untilStop = []bool{true}
	case 3:
		b0.startErr = true
	case 4:
		p0.WorkingDir = "/verif-no-such-dir"
		verifBind("os.Stat", vStatMissing)
		b0.codes = []int{0}
	}
	w.behav["p0"] = b0
	switch verifChooseK("policy.p0", 3) {
	case 1:
		p0.RestartPolicy = types.RestartPolicyConfig{Restart: types.RestartPolicyAlways, MaxRestarts: 1}
	case 2:
		p0.RestartPolicy = types.RestartPolicyConfig{Restart: types.RestartPolicyExitOnFailure}
	}
	p1 := vConf("p1", nil)
	if verifChooseK("edge.p1.p0", 2) == 1 {
		p1.DependsOn["p0"] = types.ProcessDependency{Condition: types.ProcessConditionCompletedSuccessfully}
		if verifChooseK("p1.exit_on_skipped", 2) == 1 {
			p1.RestartPolicy.ExitOnSkipped = true
		}
	}
	w.behav["p1"] = &vBehav{codes: []int{0}}
	withStop := verifChooseK("stop.p0", 2) == 1
	r := vRunner(vProject(p0, p1), false)
	var mu sync.Mutex
	stopped := false
	w.onStart = func(name string, attempt int) {
		if attempt > 0 {
			mon.mu.Lock()
			mon.relaunch[name]++
			mon.mu.Unlock()
		}
	}
	runDone := make(chan error, 1)
	var trig chan struct{}
	var what *string
	if withStop {
		trig, what = vTriggerAt("stop.at", []string{"p0"})
	}
	go func() { runDone <- r.Run() }()
	if withStop {
		go func() {
			<-trig
			verifYield("api:stop")
			verifShape("stop@" + *what)
			mu.Lock()
			stopped = true
			mu.Unlock()
			_ = r.StopProcess("p0")
		}()
	}
	// observer: reads the public state at its scheduling points
	obsDone := make(chan int)
	go func() {
		for k := 0; k < 3; k++ {
			verifYield("observer")
			for _, n := range []string{"p0", "p1"} {
				st, err := r.GetProcessState(n)
				if err != nil {
					continue
				}
				status, alive := st.Status, vGet(w.alive, n)
				if (status == types.ProcessStateCompleted || status == types.ProcessStateSkipped || status == types.ProcessStateError) && alive > 0 {
					verifShape("observed:" + status)
					verifFail("terminal.status.while.command.alive")
				}
			}
		}
		obsDone <- 1
	}()
	// end whatever still runs when nothing else can happen
	go func() {
		verifQuiesce()
		if vAliveTotal() > 0 {
			mu.Lock()
			stopped = true
			mu.Unlock()
			_ = r.ShutDownProject()
		}
	}()
	<-runDone
	<-obsDone
	verifQuiesce()
	// truth at quiescence
	for _, n := range []string{"p0", "p1"} {
		st, err := r.GetProcessState(n)
		if err != nil {
			verifFail("no.state")
			continue
		}
		alive := vGet(w.alive, n)
		verifAssert("running.iff.alive", st.IsRunning == (alive > 0))
		switch st.Status {
		case types.ProcessStatePending, types.ProcessStateLaunching, types.ProcessStateRestarting, types.ProcessStateTerminating:
			verifShape("left.in:" + st.Status)
			verifFail("transient.state.at.quiescence")
		case types.ProcessStateSkipped, types.ProcessStateError:
			verifAssert("failed.process.nonzero.exit", st.ExitCode != 0)
		case types.ProcessStateCompleted:
			if vGet(w.starts, n) > 0 {
				verifAssert("exit.code.is.last.command's", st.ExitCode == vGet(w.lastCode, n))
			}
		}
		mu.Lock()
		s := stopped
		mu.Unlock()
		if !s {
			mon.mu.Lock()
			rl := mon.relaunch[n]
			mon.mu.Unlock()
			verifAssert("restarts.equal.relaunches", st.Restarts == rl)
		}
	}
	verifReach("end")
}

// C09 (a process stopped by its readiness probe and relaunched by its policy): every status
// write is a legal transition (Running -> Terminating -> Restarting -> Running), while the
// process waits out its back-off - no command alive, nothing being terminated - it is reported
// Restarting and not running, and after the relaunch Running.
func VerifC09_ProbeRestart() {
	w := vInit()
	vBindHealth()
	vNewMonitor("p")
	policy := []string{types.RestartPolicyOnFailure, types.RestartPolicyAlways}[verifChooseK("policy", 2)]
	conf := vConf("p", nil)
	conf.RestartPolicy = types.RestartPolicyConfig{Restart: policy, MaxRestarts: 1, BackoffSeconds: 5}
	conf.ReadinessProbe = &health.Probe{Exec: &health.ExecProbe{Command: "check"}, FailureThreshold: 2}
	w.behav["p"] = &vBehav{untilStop: []bool{true}}
	proc := vMkProc(&conf)
	done := make(chan int, 1)
	go func() { done <- proc.run() }()
	<-w.started
	verifQuiesce()
	verifAssert("running.before", proc.getStatusName() == types.ProcessStateRunning)
	_ = vProbeCheck("p_ready_probe", false)
	verifSettle()
	_ = vProbeCheck("p_ready_probe", false) // the failure_threshold-th consecutive failure: internal stop
	verifSettle()                           // the command is gone, the back-off has not elapsed
	if vGet(w.alive, "p") == 0 && vGet(w.starts, "p") == 1 {
		verifReach("in.back-off")
		st := proc.getState()
		verifShape("back-off:" + st.Status)
		verifAssert("reported.restarting.during.the.back-off", st.Status == types.ProcessStateRestarting)
		verifAssert("not.reported.running.during.the.back-off", !st.IsRunning)
	}
	verifQuiesce() // back-off over: relaunched
	verifAssert("relaunched", vGet(w.starts, "p") == 2 && vGet(w.alive, "p") == 1)
	verifAssert("running.after.relaunch", proc.getStatusName() == types.ProcessStateRunning)
	_ = proc.shutDownNoRestart()
	<-done
	verifQuiesce()
	verifReach("end")
}
