//go:build verif

package app

import (
	"github.com/f1bonacc1/process-compose/src/types"
)

// C02 (decision kernel): after an exit the process is relaunched iff its availability
// policy says so, at most max_restarts times, never after a stop request; the stop flag is
// consumed; the back-off is max(1, backoff_seconds) seconds.
func VerifC02_Table() {
	policy := verifStr("policy", 16) // unconstrained text, also garbage and ""
	max := verifIntRange("max_restarts", 0, 1<<31)
	restarts := verifIntRange("restarts", 0, 1<<31)
	code := verifInt("exit_code")
	stopped := verifBool("stopped")
	backoff := verifIntRange("backoff_seconds", -(1 << 31), 1<<31)
	conf := &types.ProcessConfig{Name: "p", ReplicaName: "p",
		RestartPolicy: types.RestartPolicyConfig{Restart: policy, MaxRestarts: max, BackoffSeconds: backoff}}
	state := &types.ProcessState{ExitCode: code, Restarts: restarts}
	p := &Process{procConf: conf, procState: state}
	p.isStopped.Store(stopped)

	got := p.isRestartable() // REAL code

	wantPolicy := verifOr(policy == types.RestartPolicyAlways, verifAnd(policy == types.RestartPolicyOnFailure, code != 0))
	want := verifAnd(verifNot(stopped), verifAnd(wantPolicy, verifOr(max == 0, restarts < max)))
	verifObserveBool("restartable", got)
	verifAssert("restart.iff.policy", got == want)
	verifAssert("stop.flag.consumed", verifNot(p.isStopped.Load()))
	if got {
		verifReach("restart.taken")
	} else {
		verifReach("restart.refused")
	}

	bo := int64(p.getBackoff()) // REAL code
	secs := verifIteInt(backoff > 1, backoff, 1)
	verifObserveInt("backoff_ns", int(bo))
	verifAssert("backoff.value", bo == int64(secs)*1000000000)
	verifAssert("backoff.min1s", bo >= 1000000000)
	verifReach("end")
}
