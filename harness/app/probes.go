//go:build verif

package app

import (
	"errors"
	"sync"

	gohealth "github.com/InVisionApp/go-health/v2"
)

// Stub of the go-health scheduler (contract: OnComplete is called after every check with
// the running count of contiguous failures). The harness drives the checks.
type vProbe struct {
	name    string
	cfg     *gohealth.Config
	running bool
	cf      int64
}

var vProbes map[string]*vProbe
var vProbeOf map[*gohealth.Health]*vProbe
var vProbeMu sync.Mutex

// vProbeStarted announces every start of a probe scheduler (buffered)
var vProbeStarted chan string

func vHealthNew() *gohealth.Health { return &gohealth.Health{} }
func vHealthDisableLogging(h *gohealth.Health) {}
func vHealthAddCheck(h *gohealth.Health, cfg *gohealth.Config) error {
	vProbeMu.Lock()
	defer vProbeMu.Unlock()
	p := &vProbe{name: cfg.Name, cfg: cfg}
	vProbes[cfg.Name] = p
	vProbeOf[h] = p
	return nil
}
func vHealthStart(h *gohealth.Health) error {
	vProbeMu.Lock()
	defer vProbeMu.Unlock()
	if p := vProbeOf[h]; p != nil {
		if p.running {
			return gohealth.ErrAlreadyRunning
		}
		p.running = true
		select {
		case vProbeStarted <- p.name:
		default:
		}
	}
	return nil
}
func vHealthStop(h *gohealth.Health) error {
	vProbeMu.Lock()
	defer vProbeMu.Unlock()
	if p := vProbeOf[h]; p != nil {
		if !p.running {
			return gohealth.ErrAlreadyStopped
		}
		p.running = false
		p.cf = 0 // go-health resets its states on Stop
	}
	return nil
}

func vBindHealth() {
	vProbes = map[string]*vProbe{}
	vProbeOf = map[*gohealth.Health]*vProbe{}
	vProbeStarted = make(chan string, 16)
	verifSetGlobal("github.com/InVisionApp/go-health/v2", "ErrAlreadyRunning", errors.New("Healthcheck is already running - nothing to start"))
	verifSetGlobal("github.com/InVisionApp/go-health/v2", "ErrAlreadyStopped", errors.New("Healthcheck is not running - nothing to stop"))
	verifBind("github.com/InVisionApp/go-health/v2.New", vHealthNew)
	verifBind("(*github.com/InVisionApp/go-health/v2.Health).DisableLogging", vHealthDisableLogging)
	verifBind("(*github.com/InVisionApp/go-health/v2.Health).AddCheck", vHealthAddCheck)
	verifBind("(*github.com/InVisionApp/go-health/v2.Health).Start", vHealthStart)
	verifBind("(*github.com/InVisionApp/go-health/v2.Health).Stop", vHealthStop)
}

// vProbeCheck delivers the outcome of one check of the named probe ("a_ready_probe").
// Returns false when the probe is not running (nothing is delivered, as go-health would not
// run a check then).
func vProbeCheck(name string, ok bool) bool {
	vProbeMu.Lock()
	p := vProbes[name]
	if p == nil || !p.running {
		vProbeMu.Unlock()
		return false
	}
	st := &gohealth.State{Name: name}
	if ok {
		p.cf = 0
		st.Status = "ok"
	} else {
		p.cf++
		st.Status = "failed"
		st.Err = "check failed"
	}
	st.ContiguousFailures = p.cf
	cb := p.cfg.OnComplete
	vProbeMu.Unlock()
	cb(st) // REAL (*Prober).healthCheckCompleted
	return true
}
