//go:build verif

package api

import (
	"encoding/json"
	"errors"
	"net/url"
	"strconv"
	"net/http/httptest"
	"strings"

	"github.com/f1bonacc1/process-compose/src/pclog"
	"github.com/f1bonacc1/process-compose/src/types"
	"github.com/gin-gonic/gin"
)

// ---- recording IProject with symbolic outcomes ----
type verifCall struct {
	method string
	name   string
	a, b   int
	names  []string
}

type verifProject struct {
	calls   []verifCall
	fail    bool // the operation reports an error
	partial bool // ... but with a non-empty partial result map
	empty   bool // the operation succeeds with an empty result map (e.g. an empty list of names)
}

func (p *verifProject) rec(m, name string, a, b int) error {
	p.calls = append(p.calls, verifCall{method: m, name: name, a: a, b: b})
	if p.fail {
		return errors.New("operation failed")
	}
	return nil
}
func (p *verifProject) statusMap() map[string]string {
	if p.fail && !p.partial {
		return map[string]string{}
	}
	if !p.fail && p.empty {
		return map[string]string{}
	}
	return map[string]string{"x": "ok"}
}
func (p *verifProject) ShutDownProject() error { return p.rec("ShutDownProject", "", 0, 0) }
func (p *verifProject) IsRemote() bool          { return false }
func (p *verifProject) ErrorForSecs() int       { return 0 }
func (p *verifProject) GetHostName() (string, error) {
	return "host", p.rec("GetHostName", "", 0, 0)
}
func (p *verifProject) GetProjectState(checkMem bool) (*types.ProjectState, error) {
	a := 0
	if checkMem {
		a = 1
	}
	return &types.ProjectState{ProcessNum: 9, HostName: "hh"}, p.rec("GetProjectState", "", a, 0)
}
func (p *verifProject) GetLogLength() int { return 0 }
func (p *verifProject) GetLogsAndSubscribe(name string, observer pclog.LogObserver) error {
	return nil
}
func (p *verifProject) UnSubscribeLogger(name string, observer pclog.LogObserver) error { return nil }
func (p *verifProject) GetProcessLog(name string, offsetFromEnd, limit int) ([]string, error) {
	return []string{"l"}, p.rec("GetProcessLog", name, offsetFromEnd, limit)
}
func (p *verifProject) GetLexicographicProcessNames() ([]string, error) { return nil, nil }
func (p *verifProject) GetProcessInfo(name string) (*types.ProcessConfig, error) {
	return &types.ProcessConfig{Name: name, ReplicaNum: 5}, p.rec("GetProcessInfo", name, 0, 0)
}
func (p *verifProject) GetProcessState(name string) (*types.ProcessState, error) {
	return &types.ProcessState{Name: name, Pid: 77}, p.rec("GetProcessState", name, 0, 0)
}
func (p *verifProject) GetProcessesState() (*types.ProcessesState, error) {
	return &types.ProcessesState{States: []types.ProcessState{{Name: "s0"}, {Name: "s1"}}}, p.rec("GetProcessesState", "", 0, 0)
}
func (p *verifProject) StopProcess(name string) error { return p.rec("StopProcess", name, 0, 0) }
func (p *verifProject) StopProcesses(names []string) (map[string]string, error) {
	err := p.rec("StopProcesses", "", 0, 0)
	p.calls[len(p.calls)-1].names = names
	return p.statusMap(), err
}
func (p *verifProject) StartProcess(name string) error   { return p.rec("StartProcess", name, 0, 0) }
func (p *verifProject) RestartProcess(name string) error { return p.rec("RestartProcess", name, 0, 0) }
func (p *verifProject) ScaleProcess(name string, scale int) error {
	return p.rec("ScaleProcess", name, scale, 0)
}
func (p *verifProject) GetProcessPorts(name string) (*types.ProcessPorts, error) {
	return &types.ProcessPorts{Name: name, TcpPorts: []uint16{80, 81, 82}}, p.rec("GetProcessPorts", name, 0, 0)
}
func (p *verifProject) SetProcessPassword(name string, password string) error { return nil }
func (p *verifProject) UpdateProject(project *types.Project) (map[string]string, error) {
	return p.statusMap(), p.rec("UpdateProject", "", 0, 0)
}
func (p *verifProject) UpdateProcess(updated *types.ProcessConfig) error {
	return p.rec("UpdateProcess", updated.Name, 0, 0)
}
func (p *verifProject) ReloadProject() (map[string]string, error) {
	return p.statusMap(), p.rec("ReloadProject", "", 0, 0)
}

// ---- gin.Context: real under `go test`, stubbed response/body under symgo ----
var verifStatuses []int
var verifBodyBad bool
var verifBodyNames []string
var verifBodyProcName string

var verifPayloads []any

func verifJSON(c *gin.Context, code int, obj any) {
	verifStatuses = append(verifStatuses, code)
	verifPayloads = append(verifPayloads, obj)
}

func verifLen(n int) string { return "list:" + strconv.Itoa(n) }

// verifPayload returns the value of one top-level key of the (first) response body as a string:
// natively decoded from the bytes the real gin context wrote, under symgo read from the object the
// handler handed to c.JSON. Lists are rendered as "list:<len>", a missing key as "<absent>".
func verifPayload(key string) string {
	if verifNative() {
		var m map[string]any
		if json.Unmarshal(verifRecorder.Body.Bytes(), &m) != nil {
			return "<undecodable>"
		}
		v, ok := m[key]
		if !ok {
			return "<absent>"
		}
		switch x := v.(type) {
		case string:
			return x
		case float64:
			return strconv.Itoa(int(x))
		case []any:
			return verifLen(len(x))
		}
		return "<other>"
	}
	if len(verifPayloads) == 0 {
		return "<none>"
	}
	switch o := verifPayloads[0].(type) {
	case gin.H:
		v, ok := o[key]
		if !ok {
			return "<absent>"
		}
		switch x := v.(type) {
		case string:
			return x
		case []string:
			return verifLen(len(x))
		}
		return "<other>"
	case map[string]string:
		v, ok := o[key]
		if !ok {
			return "<absent>"
		}
		return v
	case *types.ProcessState:
		switch key {
		case "name":
			return o.Name
		case "pid":
			return strconv.Itoa(o.Pid)
		}
	case *types.ProcessConfig:
		switch key {
		case "Name":
			return o.Name
		case "ReplicaNum":
			return strconv.Itoa(o.ReplicaNum)
		}
	case types.ProcessConfig:
		switch key {
		case "Name":
			return o.Name
		}
	case *types.ProcessPorts:
		switch key {
		case "name":
			return o.Name
		case "tcp_ports":
			return verifLen(len(o.TcpPorts))
		}
	case *types.ProcessesState:
		if key == "data" {
			return verifLen(len(o.States))
		}
	case *types.ProjectState:
		switch key {
		case "processNum":
			return strconv.Itoa(o.ProcessNum)
		case "hostName":
			return o.HostName
		}
	}
	return "<absent>"
}

// number of top-level keys of the response body (maps only; -1 otherwise)
func verifPayloadKeys() int {
	if verifNative() {
		var m map[string]any
		if json.Unmarshal(verifRecorder.Body.Bytes(), &m) != nil {
			return -1
		}
		return len(m)
	}
	if len(verifPayloads) == 0 {
		return -1
	}
	switch o := verifPayloads[0].(type) {
	case gin.H:
		return len(o)
	case map[string]string:
		return len(o)
	}
	return -1
}
func verifShouldBindJSON(c *gin.Context, obj any) error {
	if verifBodyBad {
		return errors.New("malformed body")
	}
	switch o := obj.(type) {
	case *[]string:
		*o = verifBodyNames
	case *types.ProcessConfig:
		o.Name = verifBodyProcName
	case *types.Project:
	}
	return nil
}
// query values of the request (symgo: the stub below; natively the request URL carries them)
var verifQueryVals map[string]string

func verifDefaultQuery(c *gin.Context, key, def string) string {
	if v, ok := verifQueryVals[key]; ok {
		return v
	}
	return def
}

var verifRecorder *httptest.ResponseRecorder

func verifContext(params map[string]string, body string) *gin.Context {
	verifStatuses = nil
	verifPayloads = nil
	var c *gin.Context
	if verifNative() {
		gin.SetMode(gin.ReleaseMode)
		verifRecorder = httptest.NewRecorder()
		c, _ = gin.CreateTestContext(verifRecorder)
		c.Request = httptest.NewRequest("POST", "/", strings.NewReader(body))
	} else {
		c = &gin.Context{}
		verifBind("(*github.com/gin-gonic/gin.Context).JSON", verifJSON)
		verifBind("(*github.com/gin-gonic/gin.Context).ShouldBindJSON", verifShouldBindJSON)
		verifBind("(*github.com/gin-gonic/gin.Context).DefaultQuery", verifDefaultQuery)
	}
	for _, k := range []string{"name", "endOffset", "limit", "scale"} {
		if v, ok := params[k]; ok {
			c.Params = append(c.Params, gin.Param{Key: k, Value: v})
		}
	}
	return c
}

func verifStatus() (int, int) {
	if verifNative() {
		if !verifRecorder.Flushed && verifRecorder.Body.Len() == 0 {
			return 0, 0
		}
		return verifRecorder.Code, 1
	}
	if len(verifStatuses) == 0 {
		return 0, 0
	}
	return verifStatuses[0], len(verifStatuses)
}

// reference decimal parser: optional sign, then one or more digits
func verifParseInt(s string) (int, bool) {
	i, neg := 0, false
	if len(s) > 0 && (s[0] == '-' || s[0] == '+') {
		neg = s[0] == '-'
		i = 1
	}
	if i == len(s) {
		return 0, false
	}
	n := 0
	for ; i < len(s); i++ {
		if s[i] < '0' || s[i] > '9' {
			return 0, false
		}
		n = n*10 + int(s[i]-'0')
	}
	if neg {
		n = -n
	}
	return n, true
}

type verifRoute struct {
	name    string
	h       func(*PcApi, *gin.Context)
	method  string
	byName  bool
	partial bool // has a partial-result map (207)
	body    int  // 0 none, 1 []string, 2 ProcessConfig, 3 Project
	payload string // what a 200 answer carries: name / state / info / list / host / ports / map / proc / stopped
}

func verifRoutes() []verifRoute {
	return []verifRoute{
		{"GetProcess", (*PcApi).GetProcess, "GetProcessState", true, false, 0, "state"},
		{"GetProcessInfo", (*PcApi).GetProcessInfo, "GetProcessInfo", true, false, 0, "info"},
		{"GetProcesses", (*PcApi).GetProcesses, "GetProcessesState", false, false, 0, "list"},
		{"StopProcess", (*PcApi).StopProcess, "StopProcess", true, false, 0, "name"},
		{"StartProcess", (*PcApi).StartProcess, "StartProcess", true, false, 0, "name"},
		{"RestartProcess", (*PcApi).RestartProcess, "RestartProcess", true, false, 0, "name"},
		{"GetHostName", (*PcApi).GetHostName, "GetHostName", false, false, 0, "host"},
		{"GetProcessPorts", (*PcApi).GetProcessPorts, "GetProcessPorts", true, false, 0, "ports"},
		{"StopProcesses", (*PcApi).StopProcesses, "StopProcesses", false, true, 1, "map"},
		{"UpdateProcess", (*PcApi).UpdateProcess, "UpdateProcess", false, false, 2, "proc"},
		{"UpdateProject", (*PcApi).UpdateProject, "UpdateProject", false, true, 3, "map"},
		{"ReloadProject", (*PcApi).ReloadProject, "ReloadProject", false, true, 0, "map"},
		{"ShutDownProject", (*PcApi).ShutDownProject, "ShutDownProject", false, false, 0, "stopped"},
		{"IsAlive", (*PcApi).IsAlive, "", false, false, 0, "alive"},
	}
}

// what a client sees of s after the JSON encoding of the real gin context (natively); s itself under symgo
func verifJSONView(s string) string {
	if verifNative() {
		b, _ := json.Marshal(s)
		var r string
		_ = json.Unmarshal(b, &r)
		return r
	}
	return s
}

// C19 (handlers): every route calls the corresponding runner operation at most once with the
// decoded parameters, answers 400 on a runner error (207 with a partial result), 200 otherwise,
// 400 without any call on a malformed body, and never 5xx.
func VerifC19_Handlers() {
	routes := verifRoutes()
	rt := routes[verifChoose(len(routes))]
	verifShape(rt.name)
	prj := &verifProject{fail: verifBool("runner_error"), partial: verifBool("partial_result"), empty: verifBool("empty_result")}
	api := &PcApi{project: prj}
	name := verifStrAny("name", 4)
	verifBodyBad = false
	body := "[]"
	switch rt.body {
	case 1:
		verifBodyNames = []string{"a", "b"}
		body = `["a","b"]`
	case 2:
		verifBodyProcName = "pp"
		body = `{"Name":"pp"}`
	case 3:
		body = `{}`
	}
	if rt.body != 0 && verifBool("malformed_body") {
		verifBodyBad = true
		body = "{"
	}
	c := verifContext(map[string]string{"name": name}, body)

	rt.h(api, c) // REAL handler

	code, n := verifStatus()
	verifObserveInt("status", code)
	verifAssert("one.response", n == 1)
	verifAssert("no.5xx", code < 500)
	if verifBodyBad {
		verifAssert("malformed.400", code == 400)
		verifAssert("malformed.no.call", len(prj.calls) == 0)
		verifAssert("malformed.body", verifPayload("error") != "<absent>")
		verifReach("malformed")
		return
	}
	if rt.payload == "alive" {
		// liveness: answered without consulting the runner
		verifAssert("alive.no.call", len(prj.calls) == 0)
		verifAssert("alive.200", code == 200)
		verifAssert("alive.body", verifPayload("status") == "alive")
		verifReach("end")
		return
	}
	verifAssert("one.call", len(prj.calls) == 1)
	if rt.payload == "stopped" {
		// POST /project/stop acknowledges before the shutdown runs; its outcome is not reported
		verifAssert("right.method", verifAnd(len(prj.calls) == 1, prj.calls[0].method == rt.method))
		verifAssert("stop.200", code == 200)
		verifAssert("stop.body", verifPayload("status") == "stopped")
		verifReach("end")
		return
	}
	if len(prj.calls) == 1 {
		k := prj.calls[0]
		verifAssert("right.method", k.method == rt.method)
		if rt.byName {
			verifAssert("right.name", k.name == name)
		}
		if rt.body == 1 {
			verifAssert("right.names", verifAnd(len(k.names) == 2, verifAnd(k.names[0] == "a", k.names[1] == "b")))
		}
		if rt.body == 2 {
			verifAssert("right.proc", k.name == "pp")
		}
	}
	if prj.fail {
		if rt.partial && prj.partial {
			verifAssert("partial.207", code == 207)
			// the partial result is what the client gets to see
			verifAssert("partial.body", verifAnd(verifPayload("x") == "ok", verifPayloadKeys() == 1))
		} else {
			verifAssert("error.400", code == 400)
			verifAssert("error.body", verifPayload("error") == "operation failed")
		}
	} else {
		verifAssert("ok.200", code == 200)
		// faithful view: the body is what the runner returned (or names what was acted on)
		vname := verifJSONView(name)
		switch rt.payload {
		case "name":
			verifAssert("body.name", verifAnd(verifPayload("name") == vname, verifPayloadKeys() == 1))
		case "state":
			verifAssert("body.state", verifAnd(verifPayload("name") == vname, verifPayload("pid") == "77"))
		case "info":
			verifAssert("body.info", verifAnd(verifPayload("Name") == vname, verifPayload("ReplicaNum") == "5"))
		case "list":
			verifAssert("body.list", verifPayload("data") == "list:2")
		case "host":
			verifAssert("body.host", verifAnd(verifPayload("name") == "host", verifPayloadKeys() == 1))
		case "ports":
			verifAssert("body.ports", verifAnd(verifPayload("name") == vname, verifPayload("tcp_ports") == "list:3"))
		case "map":
			if prj.empty {
				verifAssert("body.map.empty", verifPayloadKeys() == 0)
			} else {
				verifAssert("body.map", verifAnd(verifPayload("x") == "ok", verifPayloadKeys() == 1))
			}
		case "proc":
			verifAssert("body.proc", verifPayload("Name") == "pp")
		}
	}
	verifReach("end")
}

// C19 (numeric path parameters): non-numeric values are answered with 400 and no runner call;
// numeric ones reach the runner with exactly the decoded values.
func VerifC19_Numeric() {
	prj := &verifProject{fail: verifBool("runner_error")}
	api := &PcApi{project: prj}
	which := verifChoose(2)
	p1 := verifStrB("p1", 3, "-+0129x")
	p2 := "7"
	if which == 0 {
		p2 = verifStrB("p2", 2, "-09x")
	}
	var c *gin.Context
	if which == 0 {
		verifShape("logs")
		c = verifContext(map[string]string{"name": "n", "endOffset": p1, "limit": p2}, "")
		api.GetProcessLogs(c) // REAL handler
	} else {
		verifShape("scale")
		c = verifContext(map[string]string{"name": "n", "scale": p1}, "")
		api.ScaleProcess(c) // REAL handler
	}
	v1, ok1 := verifParseInt(p1)
	v2, ok2 := verifParseInt(p2)
	code, n := verifStatus()
	verifObserveInt("status", code)
	verifAssert("one.response", n == 1)
	verifAssert("no.5xx", code < 500)
	if !(ok1 && ok2) {
		verifAssert("nonnumeric.400", code == 400)
		verifAssert("nonnumeric.no.call", len(prj.calls) == 0)
		verifReach("nonnumeric")
		return
	}
	verifAssert("one.call", len(prj.calls) == 1)
	if len(prj.calls) == 1 {
		k := prj.calls[0]
		verifAssert("decoded.first", k.a == v1)
		if which == 0 {
			verifAssert("decoded.second", k.b == v2)
		}
	}
	if prj.fail {
		verifAssert("error.400", code == 400)
		verifAssert("error.body", verifPayload("error") == "operation failed")
	} else {
		verifAssert("ok.200", code == 200)
		if which == 0 {
			verifAssert("body.logs", verifPayload("logs") == "list:1")
		} else {
			verifAssert("body.name", verifAnd(verifPayload("name") == "n", verifPayloadKeys() == 1))
		}
	}
	verifReach("end")
}

// C19 (query parameters): whatever a client puts into the withMemory query value of
// GET /project/state - also something that is not a boolean - the server does not fail
// internally: with a healthy runner the state is answered (200) after exactly one runner call,
// and the flag passed on is true only for values that spell "true".
func VerifC19_Query() {
	prj := &verifProject{}
	api := &PcApi{project: prj}
	vals := []string{"<absent>", "true", "false", "1", "yes", "", "2", "true "}
	v := vals[verifChoose(len(vals))]
	verifShape("withMemory=" + v)
	verifQueryVals = map[string]string{}
	c := verifContext(map[string]string{}, "")
	if v != "<absent>" {
		verifQueryVals["withMemory"] = v
		if verifNative() {
			c.Request = httptest.NewRequest("GET", "/project/state?withMemory="+url.QueryEscape(v), nil)
		}
	}
	api.GetProjectState(c) // REAL handler
	code, n := verifStatus()
	verifObserveInt("status", code)
	verifAssert("one.response", n == 1)
	verifAssert("no.5xx", code < 500)
	verifAssert("state.answered", code == 200)
	verifAssert("one.call", len(prj.calls) == 1)
	if len(prj.calls) == 1 {
		wantMem := v == "true" || v == "1"
		verifAssert("flag.passed.on", (prj.calls[0].a == 1) == wantMem)
	}
	verifAssert("body.project.state", verifAnd(verifPayload("processNum") == "9", verifPayload("hostName") == "hh"))
	verifQueryVals = nil
	verifReach("end")
}
