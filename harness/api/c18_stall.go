//go:build verif

package api

import (
	"errors"
	"net"
	"net/http"
	"strconv"

	"github.com/f1bonacc1/process-compose/src/pclog"
	"github.com/gin-gonic/gin"
	"github.com/gorilla/websocket"
)

// stubs of the websocket side: the upgrade succeeds; the client never reads, so the first
// write to the socket blocks for ever; the client sends nothing either
var verifStallForever chan struct{}

func verifUpgrade(u *websocket.Upgrader, w http.ResponseWriter, r *http.Request, h http.Header) (*websocket.Conn, error) {
	return &websocket.Conn{}, nil
}
func verifWriteJSON(c *websocket.Conn, v interface{}) error {
	<-verifStallForever
	return nil
}
func verifReadMessage(c *websocket.Conn) (int, []byte, error) {
	<-verifStallForever
	return -1, nil, nil
}
func verifWsClose(c *websocket.Conn) error { return nil }

var verifIDs int

func verifUniqueID(n int) string { verifIDs++; return "id" + strconv.Itoa(verifIDs) }

var verifQuery map[string]string

func verifGinQuery(c *gin.Context, key string) string { return verifQuery[key] }

type verifLogProject struct {
	verifProject
	buf *pclog.ProcessLogBuffer
}

func (p *verifLogProject) GetLogsAndSubscribe(name string, observer pclog.LogObserver) error {
	p.buf.GetLogsAndSubscribe(observer)
	return nil
}
func (p *verifLogProject) UnSubscribeLogger(name string, observer pclog.LogObserver) error {
	p.buf.UnSubscribe(observer)
	return nil
}

// C18 (stalled follower): a websocket follower that stops reading must not hold up the process
// it follows: every Write of the process's log buffer returns, however many lines are written.
func VerifC18_Stall() {
	verifUnwind(600)
	verifStallForever = make(chan struct{})
	verifBind("(*github.com/gorilla/websocket.Upgrader).Upgrade", verifUpgrade)
	verifBind("(*github.com/gorilla/websocket.Conn).WriteJSON", verifWriteJSON)
	verifBind("(*github.com/gorilla/websocket.Conn).ReadMessage", verifReadMessage)
	verifBind("(*github.com/gorilla/websocket.Conn).Close", verifWsClose)
	verifBind("(*github.com/gin-gonic/gin.Context).Query", verifGinQuery)
	verifBind("github.com/f1bonacc1/process-compose/src/pclog.GenerateUniqueID", verifUniqueID)
	verifQuery = map[string]string{"name": "p", "follow": "true", "offset": "0"}
	buf := pclog.NewLogBuffer(1000)
	prj := &verifLogProject{buf: buf}
	api := &PcApi{project: prj}
	api.HandleLogsStream(&gin.Context{}) // REAL handler: subscribes a connector with a 256-slot queue
	n := []int{10, 300}[verifChoose(2)]
	verifShape("lines=" + strconv.Itoa(n))
	for i := 0; i < n; i++ {
		buf.Write("line") // REAL code; must return
	}
	verifReach("end")
}

var verifDisconnect chan struct{}
var verifSocketStalls bool
var verifSent int

func verifReadUntilDisconnect(c *websocket.Conn) (int, []byte, error) {
	<-verifDisconnect
	return -1, nil, &websocket.CloseError{Code: websocket.CloseGoingAway}
}
func verifWriteJSONMaybe(c *websocket.Conn, v interface{}) error {
	if verifSocketStalls {
		// the socket write blocks while the peer does not read, and fails once the peer is gone
		select {
		case <-verifStallForever:
		case <-verifDisconnect:
			return net.ErrClosed
		}
	}
	verifSent++
	return nil
}

// C18 (follower disconnects): a websocket follower that goes away - after reading everything,
// or after it had stopped reading - never harms the process it follows: no Write panics, every
// Write returns once the follower is gone, and the follower ends up unsubscribed.
func VerifC18_Disconnect() {
	verifUnwind(700)
	verifStallForever = make(chan struct{})
	verifDisconnect = make(chan struct{})
	verifSent = 0
	verifSetGlobal("net", "ErrClosed", errors.New("use of closed network connection"))
	verifBind("(*github.com/gorilla/websocket.Upgrader).Upgrade", verifUpgrade)
	verifBind("(*github.com/gorilla/websocket.Conn).WriteJSON", verifWriteJSONMaybe)
	verifBind("(*github.com/gorilla/websocket.Conn).ReadMessage", verifReadUntilDisconnect)
	verifBind("(*github.com/gorilla/websocket.Conn).Close", verifWsClose)
	verifBind("(*github.com/gin-gonic/gin.Context).Query", verifGinQuery)
	verifBind("github.com/f1bonacc1/process-compose/src/pclog.GenerateUniqueID", verifUniqueID)
	verifQuery = map[string]string{"name": "p", "follow": "true", "offset": "0"}
	buf := pclog.NewLogBuffer(1000)
	prj := &verifLogProject{buf: buf}
	api := &PcApi{project: prj}
	verifSocketStalls = verifChooseK("client.stopped.reading", 2) == 1
	n := 3
	if verifSocketStalls {
		verifShape("stalled.then.gone")
		n = 300 // more than the follower's queue holds: the writer is held up until the client is gone
	} else {
		verifShape("reading.then.gone")
	}
	api.HandleLogsStream(&gin.Context{}) // REAL handler
	written := make(chan int, 1)
	go func() {
		verifGoroutineName("process.output")
		for i := 0; i < n; i++ {
			buf.Write("line") // REAL code: must not panic
			if !verifSocketStalls {
				verifYield("written")
			}
		}
		written <- n
	}()
	verifYield("client.about.to.disconnect")
	if verifSocketStalls {
		verifQuiesce() // the writer is stuck behind the stalled follower
	}
	close(verifDisconnect) // the client goes away
	verifQuiesce()
	select {
	case <-written:
	default:
		verifFail("writer.still.held.up.after.the.follower.is.gone")
	}
	verifAssert("every.line.is.in.the.log", buf.GetLogLength() == n)
	verifReach("end")
}

var verifConns []*websocket.Conn
var verifFirstErrClosed bool

func verifUpgradeN(u *websocket.Upgrader, w http.ResponseWriter, r *http.Request, h http.Header) (*websocket.Conn, error) {
	c := &websocket.Conn{}
	verifConns = append(verifConns, c)
	return c, nil
}

// the first client is gone when the server writes to it; every later client reads what it is sent
func verifWriteJSONByConn(c *websocket.Conn, v interface{}) error {
	if len(verifConns) > 0 && c == verifConns[0] {
		if verifFirstErrClosed {
			return net.ErrClosed
		}
		return errors.New("write: broken pipe")
	}
	// (a request without follow ends with one empty message when its queue is closed: the
	// end-of-stream write of handleLog, not a log line)
	if m, ok := v.(*LogMessage); ok && m.ProcessName != "" {
		verifGot2 = append(verifGot2, m.Message)
	}
	return nil
}

var verifGot2 []string

// C18 / C19 (a log stream after an aborted one): a websocket log client that disappears while the
// server still has lines for it - the socket write fails - does not harm later clients: the next
// stream request over the same log is served its window completely.
func VerifC18_NextClient() {
	verifStallForever = make(chan struct{})
	verifConns = nil
	verifGot2 = nil
	verifSetGlobal("net", "ErrClosed", errors.New("use of closed network connection"))
	verifBind("(*github.com/gorilla/websocket.Upgrader).Upgrade", verifUpgradeN)
	verifBind("(*github.com/gorilla/websocket.Conn).WriteJSON", verifWriteJSONByConn)
	verifBind("(*github.com/gorilla/websocket.Conn).ReadMessage", verifReadMessage)
	verifBind("(*github.com/gorilla/websocket.Conn).Close", verifWsClose)
	verifBind("(*github.com/gin-gonic/gin.Context).Query", verifGinQuery)
	verifBind("github.com/f1bonacc1/process-compose/src/pclog.GenerateUniqueID", verifUniqueID)
	follow1 := verifChooseK("first.client.follows", 2) == 1
	verifFirstErrClosed = verifChooseK("first.write.error.is.ErrClosed", 2) == 1
	follow2 := verifChooseK("second.client.follows", 2) == 1
	buf := pclog.NewLogBuffer(1000)
	buf.Write("l0")
	buf.Write("l1")
	prj := &verifLogProject{buf: buf}
	api := &PcApi{project: prj}
	q := func(follow bool) map[string]string {
		f := "false"
		if follow {
			f = "true"
		}
		return map[string]string{"name": "p", "follow": f, "offset": "2"}
	}
	verifQuery = q(follow1)
	api.HandleLogsStream(&gin.Context{}) // REAL handler, first client: its socket write fails
	verifQuiesce()
	verifQuery = q(follow2)
	api.HandleLogsStream(&gin.Context{}) // REAL handler, second client
	verifQuiesce()
	verifAssert("second.client.got.its.window", len(verifGot2) == 2 && verifGot2[0] == "l0" && verifGot2[1] == "l1")
	if follow2 {
		buf.Write("l2") // REAL code
		verifQuiesce()
		verifAssert("second.client.got.the.later.line", len(verifGot2) == 3 && verifGot2[2] == "l2")
	}
	verifReach("end")
}

func VerifC19_LogStreamAfterAbort() { VerifC18_NextClient() }
