#!/bin/bash
# seed_eval.sh <seed-id> <worktree> <property> [tier]: confirm a seeded change in its scratch worktree
# (builds, existing tests pass, demo fails with / passes without), then run the property's check against
# /repo with the patch applied and restore /repo. Results go to /verif/seeded/<seed-id>/.
id=$1; wt=$2; prop=$3; tier=${4:-quick}; forcepkg=$5
export GOFLAGS=-mod=mod GOPROXY=off GOSUMDB=off GOTOOLCHAIN=local
out=/verif/seeded/$id; mkdir -p $out
cp $wt/_seed/patch.diff $wt/_seed/meta.json $out/ 2>/dev/null
cp $wt/_seed/README.md $out/ 2>/dev/null
for f in $wt/_seed/*_test.go $wt/_seed/*.go; do [ -f "$f" ] && cp $f $out/$(basename $f).txt; done
demo=$(ls $wt/_seed/*_test.go | head -1)
pkgdir=src/$(grep -m1 "^package " $demo | sed "s/package //"); [ -n "$forcepkg" ] && pkgdir=$forcepkg
tname=$(grep -o 'func Test[A-Za-z0-9_]*' $demo | sed 's/func //' | paste -sd'|')
log=$out/confirm.log; : > $log
cd $wt && git checkout -q -- . 
cp $demo $wt/$pkgdir/zz_seed_demo_test.go
echo "== demo without patch" >> $log
go test -vet=off -count=1 -run "$tname" ./$pkgdir/ >> $log 2>&1; r0=$?
git apply _seed/patch.diff || { echo "PATCH DOES NOT APPLY"; exit 9; }
echo "== build with patch" >> $log; go build ./... >> $log 2>&1; rb=$?
echo "== demo with patch" >> $log
go test -vet=off -count=1 -run "$tname" ./$pkgdir/ >> $log 2>&1; r1=$?
rm -f $wt/$pkgdir/zz_seed_demo_test.go
echo "== existing suite with patch" >> $log
go test -vet=off -count=1 ./... >> $log 2>&1; rs=$?
git checkout -q -- .
echo "confirm: demo_without_patch_rc=$r0 build_rc=$rb demo_with_patch_rc=$r1 suite_with_patch_rc=$rs"
# run the check against /repo with the patch
cd /repo && git apply $out/patch.diff || { echo "PATCH DOES NOT APPLY TO /repo"; exit 9; }
cd /verif && ./check $prop $tier > $out/check_$prop.log 2>&1; rc=$?
cd /repo && git checkout -q -- . && git status --short | head -3
grep -c "^VIOLATION" $out/check_$prop.log | sed "s/^/violations reported: /"
grep "^VIOLATION\|^INCONCLUSIVE\|^HOLDS" $out/check_$prop.log | cut -c1-200 | head -6
echo "check_rc=$rc"
python3 - "$out" "$prop" "$r0" "$rb" "$r1" "$rs" "$rc" "$tier" <<'PY'
import json,sys
out,prop,r0,rb,r1,rs,rc,tier=sys.argv[1:9]
try: m=json.load(open(out+'/meta.json'))
except Exception: m={}
m.update({"property":prop,"confirmed":{"demo_passes_without_patch":r0=="0","builds_with_patch":rb=="0","demo_fails_with_patch":r1!="0","existing_suite_passes_with_patch":rs=="0"},
          "what_was_run":"seed_eval.sh: demo test in a scratch worktree with/without patch.diff, go build, full existing suite with the patch; then ./check %s %s against /repo with the patch applied (git apply / git checkout)"%(prop,tier),
          "check_result":{"tier":tier,"exit_code":int(rc),"detected":rc=="1"}})
json.dump(m,open(out+'/meta.json','w'),indent=1)
PY
