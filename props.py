# Property table: which harnesses decide which property, with the bounds per tier.
# Each harness entry: pkg (dir under /repo/src), name (harness function), quick/thorough
# (engine options: d = delay bound, workers, wall, ...), bounds (stated, for evidence),
# reach (vacuity witnesses that must be hit), native (False: cannot be replayed natively).

PROPS = {}

PROPS["C18"] = {
    "harnesses": [
        {"pkg": "pclog", "name": "VerifC18_Range", "quick": {}, "thorough": {},
         "bounds": {"len": "[0,1100] symbolic", "offset": "full int64", "limit": "full int64"}},
    ],
    "stubs": [],
    "assumptions": ["buffer length <= size+slack = 1100 (the default configuration's maximum)"],
}
