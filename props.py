# Property table: which harnesses decide which property, with the bounds per tier.
# Each harness entry: pkg (dir under /repo/src), name (harness function), quick/thorough
# (engine options: d = delay bound, workers, wall, ...), bounds (stated, for evidence),
# reach (vacuity witnesses that must be hit), native (False: cannot be replayed natively).

PROPS = {}

PROPS["C18"] = {
    "harnesses": [
        {"pkg": "api", "name": "VerifC18_Stall", "quick": {"d": 0}, "thorough": {"d": 0}, "native": False,
         "bounds": {"follower": "websocket client that never reads (socket write blocks for ever)", "lines written": "10 or 300 (the follower's queue holds 256)"}},
        {"pkg": "api", "name": "VerifC18_NextClient", "quick": {"d": 1}, "thorough": {"d": 2}, "native": False,
         "bounds": {"clients": "two websocket log requests in sequence over one log of 2 lines (window 2)", "first client": "gone when the server writes to it: the socket write fails with net.ErrClosed or another error; follow or not", "second client": "follow or not; one later line when it follows", "schedules": "one preemption (two thorough)"}},
        {"pkg": "api", "name": "VerifC18_Disconnect", "quick": {"d": 2}, "thorough": {"d": 3}, "native": False,
         "bounds": {"follower": "websocket client that reads 3 lines and disconnects at any scheduling point, or that stopped reading (300 lines, queue of 256 full) and then disconnects", "socket": "a blocked write fails once the peer is gone"}},
        {"pkg": "pclog", "name": "VerifC18_Range", "quick": {}, "thorough": {},
         "bounds": {"len": "[0,1100] symbolic", "offset": "full int64", "limit": "full int64"}},
        {"pkg": "pclog", "name": "VerifC18_Write", "quick": {}, "thorough": {},
         "bounds": {"size": "[0,3] symbolic", "pre-state": "0, 1, size, size+slack-1, size+slack lines held", "step": "one Write"}},
        {"pkg": "pclog", "name": "VerifC18_TwoWriters", "quick": {"d": 2}, "thorough": {"d": 3}, "replay_repeat": 16,
         "bounds": {"writers": "2 (stdout and stderr reader), 2 lines each", "follower": "subscribed before, slow inside its callback (scheduling point)", "schedules": "two preemptions (three thorough)"}},
        {"pkg": "pclog", "name": "VerifC18_Follow", "quick": {"d": 3}, "thorough": {"d": 4}, "replay_repeat": 16,
         "bounds": {"writes": 4, "subscribe": "after any number of them", "tail": "full int64", "unsubscribe": "after any number of writes or never", "concurrent writer": "yes (delay bound d)"}},
    ],
    "stubs": [],
    "assumptions": ["buffer length <= size+slack = 1100 (the default configuration's maximum)"],
}

PROPS["C10"] = {
    "harnesses": [
        {"pkg": "health", "name": "VerifC10_Defaults", "quick": {}, "thorough": {},
         "bounds": {"ints": "5 x full int64"}},
        {"pkg": "health", "name": "VerifC10_HttpDefaults", "quick": {}, "thorough": {},
         "bounds": {"strings": "one of host/scheme/path symbolic, len<=3 over {space,ws,letter}; port len<=6 over [+-0-9x]", "num_port": "full int64"}},
        {"pkg": "health", "name": "VerifC10_Threshold", "quick": {}, "thorough": {}, "reach": ["end", "fatal"],
         "bounds": {"failure_threshold": "[-1,4]", "checks": 6, "stop_at": "[0,6]"}},
        {"pkg": "app", "name": "VerifC10_Coupling", "quick": {"d": 0}, "thorough": {"d": 1}, "native": False, "reach": ["end", "fatal"],
         "bounds": {"checks": "every outcome sequence of 4", "failure_threshold": 2, "policy": "no / on_failure / always (max_restarts 1)", "virtual time": "yes"}},
        {"pkg": "app", "name": "VerifC10_Daemon", "quick": {"d": 0}, "thorough": {"d": 1}, "native": False,
         "bounds": {"policy": "no / always (max_restarts 1)", "fatal liveness result": "while the launcher still runs, or after the daemon was launched", "failure_threshold": 2}},
        {"pkg": "health", "name": "VerifC10_Lifecycle", "quick": {"d": 1}, "thorough": {"d": 2},
         "bounds": {"initial delay": "{0,2}s", "stop": "0 / 1 / 3 s after Start (before or after the delay elapsed)", "virtual time": "yes"}},
    ],
    "stubs": ["go-health scheduler: OnComplete after each check with running ContiguousFailures (contract)"],
    "assumptions": [],
}

PROPS["C02"] = {
    "harnesses": [
        {"pkg": "app", "name": "VerifC02_Table", "quick": {}, "thorough": {}, "reach": ["end", "restart.taken", "restart.refused"],
         "bounds": {"policy": "arbitrary string len<=16", "max_restarts": "[0,2^31]", "restarts": "[0,2^31]", "exit_code": "full int64",
                    "backoff_seconds": "[-2^31,2^31]"}},
        {"pkg": "app", "name": "VerifC02_Loop", "quick": {"d": 1}, "thorough": {"d": 2}, "replay_repeat": 3, "native_timeout": 45, "reach": ["end", "relaunch"],
         "bounds": {"attempts": "<=4 scripted exits (codes 0/3 per attempt, each attempt running 0 or 3 virtual seconds), then runs until stopped", "policy": "no/always/on_failure/exit_on_failure",
                    "max_restarts": "{0,1,2}", "backoff_seconds": "{0,2}", "stop request": "none or one, at any labelled instant"}},
        {"pkg": "app", "name": "VerifC02_Shutdown", "quick": {"d": 2}, "thorough": {"d": 3}, "replay_repeat": 6,
         "bounds": {"N": 2, "scenario": "restart-always worker whose command exits by itself at any point of a project shutdown (ordered or unordered) that is kept busy by a slow process with a 2s shutdown timeout"}},
    ],
    "stubs": [],
    "assumptions": ["max_restarts >= 0 (the statement is silent on negative values)", "second-valued options within +-2^31 (no Duration overflow)"],
}

PROPS["C13"] = {
    "harnesses": [
        {"pkg": "types", "name": "VerifC13_Names", "quick": {}, "thorough": {},
         "bounds": {"replicas": "every n in [1,128] (fork)", "replica numbers": "symbolic 0<=i<j<n"}},
        {"pkg": "app", "name": "VerifC13_Scale1", "quick": {"d": 0}, "thorough": {"d": 1}, "native": False,
         "bounds": {"initial replicas": "{1,2,3}, each running / completed", "scale target": "{-1,0,1,2,3,9,10,11}", "requests": 1, "templates": "command and description reference PC_REPLICA_NUM and a global variable"}},
        {"pkg": "app", "name": "VerifC13_Scale1Backoff", "quick": {"d": 0}, "thorough": {"d": 1}, "native": False,
         "bounds": {"initial replicas": "{1,2,3}, each running / completed / waiting out its restart back-off", "scale target": "{1,2,3}", "requests": 1}},
        {"pkg": "app", "name": "VerifC13_Scale2", "thorough": {"d": 0, "wall": 3000}, "native": False,
         "bounds": {"requests": 2}},
        {"pkg": "app", "name": "VerifC13_Scale100", "quick": {"d": 0}, "thorough": {"d": 0}, "native": False,
         "bounds": {"initial replicas": "{1,2,3}", "scale targets": "two successive requests from {99,100,101} (name width 2 -> 3 and back)"}},
    ],
    "stubs": ["math.Log10 evaluated natively on the concrete replica count"],
    "assumptions": [],
}

PROPS["C14"] = {
    "harnesses": [
        {"pkg": "app", "name": "VerifC14_Update", "quick": {"d": 0}, "thorough": {"d": 1}, "native": False,
         "bounds": {"old project": "a (depends on k), b, k running", "new project": "a changed in one of 11 launch-relevant settings or unchanged; b kept or removed; c added or not; k untouched; d disabled in both, changed or not; r (restart always) absent, or in its restart back-off when the update changes or removes it",
                    "probes": "both kinds configured"}},
        {"pkg": "types", "name": "VerifC14_CompareLists", "quick": {}, "thorough": {}, "reach": ["end", "equal", "different"],
         "bounds": {"list": "environment or entrypoint", "lengths": "0..2 on either side, independently", "elements": "arbitrary strings len<=2", "rest": "identical concrete configurations", "oracle": "equal => same lists and same derived executable/arguments; different => the lists differ (an unchanged process keeps its instance)"}},
        {"pkg": "types", "name": "VerifC14_Compare", "quick": {}, "thorough": {}, "reach": ["end", "equal", "different"],
         "bounds": {"strings": "arbitrary, len<=3", "ints": "full int64", "containers": "2 args, 1 env entry, 1 dependency, exec readiness + http liveness probe"}},
    ],
    "stubs": ["reflect.DeepEqual: structural equality intrinsic over interpreter values"],
    "assumptions": [],
}

PROPS["C07"] = {
    "harnesses": [
        {"pkg": "loader", "name": "VerifC07_Cycle3", "quick": {}, "thorough": {}, "reach": ["end", "cyclic", "acyclic", "undefined"],
         "bounds": {"N": 3, "edges": "all 2^9 adjacency matrices incl. self loops + optional dangling edge", "map order": "sorted"}},
        {"pkg": "loader", "name": "VerifC07_Cycle3Orders", "thorough": {"wall": 3000}, "reach": ["end", "cyclic", "acyclic", "undefined"],
         "bounds": {"N": 3, "map order": "every iteration order of the process table in validateNoCircularDependencies, or of every dependency map in GetDependencies (one family per path)"}},
        {"pkg": "loader", "name": "VerifC07_Cycle4", "thorough": {"wall": 3000}, "reach": ["end", "cyclic", "acyclic", "undefined"],
         "bounds": {"N": 4, "edges": "all 2^16 adjacency matrices + optional dangling edge", "map order": "sorted"}},
        {"pkg": "types", "name": "VerifC07_Order3", "quick": {}, "thorough": {},
         "bounds": {"N": 3, "edges": "all DAGs over index order", "markings": "enabled/disabled/foreground per process", "map order": "every iteration order"}},
        {"pkg": "types", "name": "VerifC07_Order3Replicas", "quick": {}, "thorough": {}, "replay_repeat": 40,
         "bounds": {"N": 3, "p0": "2 replicas addressed by the process name", "map order": "sorted"}},
        {"pkg": "app", "name": "VerifC07_Select", "quick": {}, "thorough": {}, "replay_repeat": 40,
         "bounds": {"N": 3, "edges": "all DAGs over index order", "requested": "every subset", "no-deps": "both", "foreground": "every marking", "p0": "1 or 2 replicas",
                    "map order": "sorted"}},
        {"pkg": "types", "name": "VerifC07_Order4", "thorough": {"wall": 3000},
         "bounds": {"N": 4, "map order": "sorted"}},
    ],
    "stubs": [],
    "assumptions": ["replicas = 1 for processes that are depended upon (see known finding on replicated dependencies)", "project values built directly (YAML decoding outside)"],
}

PROPS["C12"] = {
    "harnesses": [
        {"pkg": "app", "name": "VerifC12_RevDeps3", "quick": {}, "thorough": {}, "replay_repeat": 40,
         "bounds": {"N": 3, "edges": "all 2^6 dependency relations", "running": "all subsets", "map order": "every iteration order"}},
        {"pkg": "app", "name": "VerifC12_Project", "quick": {"d": 0}, "thorough": {"d": 1}, "replay_repeat": 8, "reach": ["end", "unrelated.stopped.concurrently"],
         "bounds": {"shapes": "chain / fan-in / fan-out / diamond / dependent still Pending on process_completed / disabled dependent started by hand", "running at shutdown": "every subset (the others have completed)", "termination latency": "immediate or only when nothing else can happen, per process"}},
    ],
    "stubs": [],
    "assumptions": [],
}

PROPS["C15"] = {
    "harnesses": [
        {"pkg": "loader", "name": "VerifC15_Env", "quick": {},
         "bounds": {"base entries": "<=2", "override entries": "<=1", "keys": "{A,B}", "values": "every byte string over {'=','x'} of length <=2"}},
        {"pkg": "loader", "name": "VerifC15_Fold", "quick": {}, "thorough": {},
         "bounds": {"extends chain": "child / child->parent / child->parent->grandparent", "per file": "sets log_level or not, defines process svc or not, has a project-level shell section or not"}},
        {"pkg": "loader", "name": "VerifC15_EnvDeep", "thorough": {},
         "bounds": {"base entries": "<=2", "override entries": "<=1", "keys": "{A,B}", "values": "every byte string over {'=','x'} of length <=3"}},
    ],
    "stubs": ["mergo.Map on two flat maps: override wins by key (natively the real mergo runs)"],
    "assumptions": ["mergo's reflective deep merge of ProcessConfig is trusted (third party)", "YAML decoding outside"],
}

PROPS["C17"] = {
    "harnesses": [
        {"pkg": "app", "name": "VerifC17_Launch", "quick": {}, "thorough": {},
         "bounds": {"layers": "inherited/global/per-process, <=1 entry each", "keys": "A (all layers), PC_PROC_NAME/PC_REPLICA_NUM (inherited)",
                    "values": "byte strings over {x,y} len<=1", "replica_num": "[0,99]"}},
        {"pkg": "app", "name": "VerifC17_Project", "quick": {"d": 0}, "thorough": {"d": 1}, "replay_repeat": 12,
         "bounds": {"processes": "alpha (2 own variables, restarted once) and beta (1 own variable)", "global variables": "1..4 plus two from env_cmds next to a failing env command, every order of the env_cmds map"}},
        {"pkg": "loader", "name": "VerifC17_Expand", "quick": {}, "thorough": {},
         "bounds": {"text": "1..3 tokens from {literal over {a,-,space} len<=2, $$, $VX, ${VX}, ${VY}}", "expansion": "enabled/disabled", "values": "VX=val, VY=p$q"}},
    ],
    "stubs": ["os.Environ bound to the harness list (natively the real environment is replaced by it)", "exec: last duplicate wins", "Expand: os.ReadFile, os.Getenv, godotenv.Load and yaml.Unmarshal (two-line decoder) are stubs under symgo; os.ExpandEnv is interpreted from the standard library's SSA; natively the real file, environment and YAML decoder are used"],
    "assumptions": ["global and per-process lists do not themselves define PC_PROC_NAME / PC_REPLICA_NUM"],
}

PROPS["C06"] = {
    "harnesses": [
        {"pkg": "command", "name": "VerifC06_Stop", "quick": {}, "thorough": {}, "native": False,
         "bounds": {"signal": "full int64", "pid/pgid": "[2,2^22]", "parent_only": "both", "getpgid": "ok/error"}},
        {"pkg": "app", "name": "VerifC06_ProjectTimeout", "quick": {"d": 0}, "thorough": {"d": 1}, "replay_repeat": 4, "native_timeout": 30,
         "bounds": {"scenario": "ordered shutdown of app -> db; app needs 1..3 s to die, db (timeout_seconds 3) 0..2 s", "virtual time": "yes"}},
        {"pkg": "app", "name": "VerifC06_Escalation", "quick": {"d": 0}, "thorough": {"d": 1}, "native": False, "reach": ["end", "escalated"],
         "bounds": {"signal": "{0,2,15}", "timeout_seconds": "{0,2}", "parent_only": "both", "shutdown.command": "none / succeeds / fails / runs into its timeout",
                    "child": "reacts to the signal or ignores SIGTERM; dies at once or only when nothing else can happen", "virtual time": "yes"}},
    ],
    "stubs": ["syscall.Getpgid (arbitrary pgid or error)", "syscall.Kill (recording)", "(*os.Process).Signal (recording)"],
    "assumptions": ["kernel semantics of signals and process groups, survival of descendants, and signal delivery to the binary are outside the claim",
                    "counterexamples of this harness are not replayed natively (it would send real signals to arbitrary pids)"],
}

PROPS["C19"] = {
    "harnesses": [
        {"pkg": "api", "name": "VerifC19_Handlers", "quick": {}, "thorough": {}, "reach": ["end", "malformed"],
         "bounds": {"routes": "14 JSON routes (all of routes.go except logs, scale, project state - own harnesses - and the websocket)", "runner outcome": "ok / ok with empty result / error / error with partial result", "body": "well-formed / malformed", "response body": "compared with what the recording runner returned (name, state, info, list, ports, result map, error text)"}},
        {"pkg": "api", "name": "VerifC19_LogStreamAfterAbort", "quick": {"d": 1}, "thorough": {"d": 2}, "native": False,
         "bounds": {"clients": "two websocket log requests in sequence over one log of 2 lines (window 2)", "first client": "gone when the server writes to it: the socket write fails with net.ErrClosed or another error; follow or not", "second client": "follow or not; one later line when it follows", "schedules": "one preemption (two thorough)"}},
        {"pkg": "api", "name": "VerifC19_Query", "quick": {}, "thorough": {},
         "bounds": {"route": "GET /project/state", "withMemory": "absent / true / false / 1 / yes / empty / 2 / 'true '"}},
        {"pkg": "api", "name": "VerifC19_Numeric", "quick": {}, "thorough": {}, "reach": ["end", "nonnumeric"],
         "bounds": {"path parameters": "every byte string over [-+0129x] of length <=3 (second: [-09x] len<=2)"}},
    ],
    "stubs": ["gin.Context.JSON / ShouldBindJSON / DefaultQuery (recording; natively the real gin test context is used)", "IProject: recording stub with symbolic outcomes"],
    "assumptions": ["gin routing, HTTP transport, JSON encoding/decoding and the whole client package are outside the claim"],
}

PROPS["C03"] = {
    "harnesses": [
        {"pkg": "app", "name": "VerifC03_Daemon", "quick": {"d": 0}, "thorough": {"d": 1}, "native": False,
         "bounds": {"N": 2, "scenario": "daemon (already launched, or its launcher still running) with a shutdown command that succeeds / fails / runs into its timeout, plus an ordinary process; project shutdown"}},
        {"pkg": "app", "name": "VerifC03_AfterScale", "quick": {"d": 1}, "thorough": {"d": 2}, "native": False,
         "bounds": {"initial replicas": "{1,2}", "scale to": "{1,2,3,10}", "shutdown": "default or ordered, after the scale request has settled"}},
        {"pkg": "app", "name": "VerifC03_ManualStart", "quick": {"d": 1}, "thorough": {"d": 2}, "replay_repeat": 6,
         "bounds": {"N": 2, "scenario": "a disabled process (with or without a dependency on the running one) started through the API, then a default or ordered project shutdown"}},
        {"pkg": "app", "name": "VerifC03_AlreadyStopping", "quick": {"d": 1}, "thorough": {"d": 2}, "replay_repeat": 6,
         "bounds": {"N": 2, "scenario": "StopProcess on a slow-dying process, then ShutDownProject (ordered or not) while it is still Terminating"}},
        {"pkg": "app", "name": "VerifC03_Project", "quick": {"d": 1}, "thorough": {"d": 2}, "replay_repeat": 8, "reach": ["end", "run.returned", "shutdown.returned"],
         "bounds": {"N": 2, "shapes": "independent / b after a started / b after a completed", "policy of a": "no/always",
                    "a": "exits by itself or runs until stopped", "shutdown instant": "every labelled life-cycle point of a or b (27 alternatives)"}},
    ],
    "stubs": ["Commander: vCmd (reacts to the signal; exit latency eager)"],
    "assumptions": ["children react to the stop signal", "preemption only at labelled yield points and blocking operations"],
}

PROPS["C05"] = {
    "harnesses": [
        {"pkg": "app", "name": "VerifC05_Chain", "quick": {"d": 1}, "thorough": {"d": 2}, "replay_repeat": 8,
         "bounds": {"chain": "a <- b <- c", "conditions": "completed_successfully/healthy/log_ready per edge", "failure of a": "non-zero exit / start error / bad working dir / stopped by user before ready",
                    "exit_on_skipped on c": "both"}},
        {"pkg": "app", "name": "VerifC05_TwoDeps", "quick": {"d": 0}, "thorough": {"d": 1}, "replay_repeat": 12,
         "bounds": {"graph": "mid depends on ghost (disabled, never scheduled) and on bad (fails completed_successfully / log_ready); leaf depends on mid", "map order": "every order of mid's depends_on"}},
    ],
    "stubs": ["Commander: vCmd", "go-health scheduler: harness-driven (no check is ever delivered in this harness)", "os.Stat of the bad working dir: not found"],
    "assumptions": ["depth 3 (deeper chains by the same argument per edge)"],
}

# ---- claim texts per property (MANIFEST level_claimed / level_note) ----
LEVELS = {}
NOT_APPLICABLE = [
    {"property_id": "C20", "reason": "data-race freedom needs preemption between arbitrary memory accesses and an encoding of Go's memory model; the engine's scheduler switches only at blocking operations and labelled yield points, so it is blind to exactly the unsynchronised accesses the property is about (DESIGN.md 7/C20)"},
]

def _lv(pid, text, note, **kw):
    LEVELS[pid] = dict(text=text, note=note, **kw)

_lv("C05", "Real runner on the chain a<-b<-c, all 9 combinations of the three unsatisfiable conditions, four failure modes of a, exit_on_skipped on/off, delay bound d: dependents never launched, Skipped with non-zero exit code, no hang, project code 1.",
    "Stub Commander; go-health scheduler stubbed (no check delivered); os.Stat stub for the bad directory; depth 3.")
_lv("C15", "mergeSlice(toEnvVarMap,toEnvVarSlice) on base<=2 / override<=1 entries over keys {A,B} with every value over {'=','x'} up to length 2 (3 thorough): result equals last-wins lookup of override-else-base, byte for byte. Fold: real loadProjectFromFile/loadExtendProject/merge over an extends chain of 1-3 files, each setting log_level and defining process svc or not: the nearest file that sets a value wins, FileNames and fold order agree.",
    "mergo.Map on flat maps bound to its contract under symgo (real mergo natively); mergo's deep merge of ProcessConfig and YAML are outside (reduced scope).")
_lv("C19", "Every JSON handler of pc_api.go against a recording IProject with symbolic outcomes: right operation once with decoded parameters, 400/207/200 mapping, response body = what the runner returned (faithful view), malformed body or non-numeric path parameter -> 400 without a call, never 5xx.",
    "gin.Context response/body methods stubbed under symgo (real gin test context natively); routing, HTTP, JSON and the client package outside (reduced scope).")

PROPS["C01"] = {
    "harnesses": [
        {"pkg": "app", "name": "VerifC01_Api", "quick": {"d": 1}, "thorough": {"d": 2}, "native": False, "reach": ["end", "launched.after.ready"],
         "bounds": {"operation": "RestartProcess / StopProcess+StartProcess / ScaleProcess to 2 / UpdateProject adding a dependent", "dependency": "process_healthy that becomes ready later, or process_completed_successfully that failed"}},
        {"pkg": "app", "name": "VerifC01_Api2", "quick": {"d": 1}, "thorough": {"d": 2}, "native": False, "reach": ["end", "launched.after.ready"],
         "bounds": {"scenario": "dependent with a never-scheduled (disabled) sibling dependency, both depends_on orders / dependency restarted through the API before the dependent is started / UpdateProject adding a dependency and its dependent at once, every map order / a process_log_ready dependency stopped or restarted through the API before its ready line / a process_started dependency stopped (API or project shutdown) while it was still waiting for its own dependencies / a process_healthy dependent started while its dependency, ready before, is down in its restart back-off / a failing dependency (restart on_failure) stopped during its back-off",
                    "schedules": "one preemption (two thorough)"}},
        {"pkg": "app", "name": "VerifC01_Gating", "quick": {"d": 0}, "thorough": {"d": 1}, "replay_repeat": 8,
         "bounds": {"N": 3, "edges": "every subset of {p1->p0,p2->p0,p2->p1} x {completed, completed_successfully, log_ready, started}", "dependency behaviour": "exit 0 / exit 3 / killed by a signal (-1) / runs until stopped",
                    "ready line": "printed or not"}},
        {"pkg": "app", "name": "VerifC01_GatingProbes", "quick": {"d": 0}, "thorough": {"d": 1}, "replay_repeat": 2, "validate_strict": False,
         "bounds": {"N": 3, "edges": "as above with at least one process_healthy edge", "readiness probe": "one check, success or failure, delivered at any instant after the launch"}},
    ],
    "stubs": ["Commander: vCmd", "go-health scheduler: harness-driven", "stdout: scripted lines"],
    "assumptions": ["dependencies are not replicated", "restart policy of dependencies: no"],
}

PROPS["C04"] = {
    "harnesses": [
        {"pkg": "app", "name": "VerifC04_ExitCode", "quick": {}, "thorough": {},
         "bounds": {"exit code": "full int64", "policy": "arbitrary string len<=16", "exit_on_end/exit_on_skipped": "both"}},
        {"pkg": "app", "name": "VerifC04_EarlyTrigger", "quick": {"d": 2}, "thorough": {"d": 3}, "replay_repeat": 8,
         "bounds": {"N": 3, "p0": "cannot be started, exit_on_failure", "p1,p2": "run until stopped", "schedules": "the trigger anywhere in the start-up (two preemptions, three thorough)"}},
        {"pkg": "app", "name": "VerifC04_ReadyWaiter", "quick": {"d": 2}, "thorough": {"d": 3}, "replay_repeat": 8,
         "bounds": {"N": 2, "p0": "exits 0, exit_on_end or exit_on_failure, readiness probe never answered", "p2": "process_healthy on p0", "schedules": "two preemptions (three thorough)"}},
        {"pkg": "app", "name": "VerifC04_Project", "quick": {"d": 0}, "thorough": {"d": 1}, "replay_repeat": 8, "reach": ["end", "nonzero.exit"],
         "bounds": {"N": 3, "behaviour": "exit 0 / exit 3+i / runs until stopped, per process", "flags": "none / exit_on_failure / exit_on_end / exit_on_skipped, per process",
                    "edge": "optional p2 -> p0 completed_successfully / healthy", "shutdown": "default or ordered"}},
    ],
    "stubs": ["Commander: vCmd (exit code -1 when ended by the signal)"],
    "assumptions": ["handleErrorAndExit/os.Exit mapping of the binary not run"],
}
_lv("C04", "Kernel: runner onProcessEnd/onProcessSkipped for every exit code, policy string and flag combination (solver-decided). Project: real runner on 3 processes, per process exit 0 / distinct non-zero / runs until stopped x {none, exit_on_failure, exit_on_end, exit_on_skipped}, optional completed_successfully edge, delay bound d: Run() returns (no hang) with nothing alive, nil unless a trigger occurred, and the code is that of a triggering process, never of a victim of the shutdown; the shutdown a trigger starts is the default or the ordered one. ReadyWaiter: a dependent that gives up waiting for the readiness of a process that ended does not change that process's exit code (the project reports the command's own code).",
    "Stub Commander (victims exit with -1); N=3; preemption at labelled yields/blocking ops; the binary's os.Exit mapping is outside.")
_lv("C01", "Real runner on 3 processes, every subset of the acyclic edges x the five condition types, dependency behaviours (exit 0/3, runs on, ready line printed or not, one readiness check success/failure delivered at any instant), delay bound d; ground truth (exited, exit 0, probe success seen, line served, released from own dependencies) kept by the stubs and evaluated at every launch. Api: a gated process restarted / stopped+started / scaled to 2 / added by UpdateProject while its dependency is not ready (or has failed) is launched only after the dependency became ready, never when it failed. Api2: a never-scheduled sibling dependency does not end the wait for the other dependencies (both depends_on orders); a dependent started after its dependency was restarted waits for the new instance; UpdateProject adding a dependency and its dependent in one request (every map order, one preemption) gates the dependent.",
    "Stub Commander, scripted stdout, go-health scheduler harness-driven (natively the real exec probe 'true'/'false'); un-replicated dependencies; N=3.")

PROPS["C08"] = {
    "harnesses": [
        {"pkg": "app", "name": "VerifC08_History2", "quick": {"d": 0}, "thorough": {"d": 1}, "replay_repeat": 6,
         "bounds": {"requests": "every sequence of 2 from {start, stop, restart, unknown-name}", "policy": "no/always", "stop latency": "immediate or only when nothing else can happen (choice per instance)"}},
        {"pkg": "app", "name": "VerifC08_Concurrent", "quick": {"d": 1}, "thorough": {"d": 2}, "replay_repeat": 6,
         "bounds": {"requests": "two concurrent clients, one request each from {start, stop, restart}", "policy": "no/always"}},
        {"pkg": "app", "name": "VerifC08_BulkStop", "quick": {"d": 0}, "thorough": {"d": 1}, "replay_repeat": 4,
         "bounds": {"request": "StopProcesses with every ordered selection of 2-3 names from {a (already stopped), b, c (running), ghost (unknown)}"}},
        {"pkg": "app", "name": "VerifC08_History3", "thorough": {"d": 0}, "replay_repeat": 6,
         "bounds": {"requests": "every sequence of 3", "policy": "no/always"}},
    ],
    "stubs": ["Commander: vCmd with a live-instance counter"],
    "assumptions": ["requests issued sequentially from one client; concurrent duplicates are covered only by the schedules of the delay bound"],
}
_lv("C08", "Real runner, one process plus a bystander, every history of 2 (3 thorough) requests from {start, stop, restart, unknown name}, restart policy no/always, child dies at once or only when nothing else can happen (virtual time lets the restart back-off expire first); at most one live instance at every launch, and the per-request post-conditions of the statement at quiescence.",
    "Stub Commander; sequential client; preemption at labelled yields/blocking ops.")

PROPS["C09"] = {
    "harnesses": [
        {"pkg": "app", "name": "VerifC09_State", "quick": {}, "thorough": {},
         "bounds": {"status": "arbitrary string len<=12", "exit code": "[0,255]"}},
        {"pkg": "app", "name": "VerifC09_ProbeRestart", "quick": {"d": 1}, "thorough": {"d": 2}, "native": False, "reach": ["end", "in.back-off"],
         "bounds": {"process": "readiness probe with failure_threshold 2, restart on_failure/always, back-off 5 s", "history": "two failed checks, internal stop, back-off, relaunch, stop"}},
        {"pkg": "app", "name": "VerifC09_Project", "quick": {"d": 1}, "thorough": {"d": 2}, "replay_repeat": 6,
         "bounds": {"N": 2, "p0": "exit 0 / exit 3 / runs until stopped / start error; policy no or always(max 1)", "p1": "optional completed_successfully edge on p0",
                    "stop of p0": "none or at any labelled life-cycle point", "observer": "3 reads of the public state at arbitrary scheduling points"}},
    ],
    "stubs": ["Commander: vCmd (ground truth: alive, last exit code, relaunches)"],
    "assumptions": ["alive = from a successful Start() to the end of the stub command", "ground truth compared at observer reads and at quiescence, not inside the supervisor's critical sections"],
}
_lv("C09", "Kernel: setState/onStateChange/updateProcState for every status string. Project: every status write of the real runner on a 2-process project (exit 0/3, runs on, start error; restart policy; dependency edge; a stop at any labelled point) is checked against the legal-transition relation of the statement; an observer reads the public state at arbitrary scheduling points; at quiescence is_running, exit code, restart count and absence of transient states are compared with the stub Commander's ground truth.",
    "Stub Commander; N=2; transition relation written from the statement (self loops ignored).")

PROPS["C11"] = {
    "harnesses": [
        {"pkg": "app", "name": "VerifC11_Lines", "quick": {}, "thorough": {},
         "bounds": {"stream": "<=3 complete lines + final fragment, each every byte string over {a,b,space} of length <=2 (empty lines, missing final newline included)"}},
        {"pkg": "app", "name": "VerifC11_Window", "quick": {}, "thorough": {},
         "bounds": {"log_length": "{0,1,3}", "lines written": "log_length + {99,100,101,102,200,201,202} (both sides of the first two trimming points)"}},
        {"pkg": "app", "name": "VerifC11_Streams", "quick": {"d": 2}, "thorough": {"d": 3}, "replay_repeat": 6,
         "bounds": {"output": "two stdout lines and two stderr lines, then exit 0", "readers": "the stderr reader may be delayed at every read (delay bound d)"}},
        {"pkg": "app", "name": "VerifC11_UnifiedLog", "quick": {"d": 1}, "thorough": {"d": 2}, "replay_repeat": 6,
         "bounds": {"project": "unified log file; worker with 1 or 2 replicas (one line each, exit 0); writer with two stdout lines and one stderr line that ends last"}},
        {"pkg": "pclog", "name": "VerifC11_LoggerDrain", "quick": {"d": 1}, "thorough": {"d": 3}, "replay_repeat": 6,
         "bounds": {"lines": "1..3 handed to the file logger (Info/Error alternating), then Close", "logger config": "default / flush_each_line / no_metadata / add_timestamp",
                    "collector progress": "every interleaving of the collector with the producer at the per-line scheduling points within the delay bound"}},
    ],
    "stubs": ["bufio.Reader.ReadString by its documented contract over the scripted stream (natively the real bufio over the same bytes)", "logger of the Lines harness: NilLogger",
              "zerolog: one Write of message+newline per Msg to the writer given to zerolog.New (natively the real zerolog)", "PCLog.getWriter: an in-memory sink (natively a real file)"],
    "assumptions": ["real pipes, kernel buffering, zerolog formatting and rotation are outside the claim (reduced scope)"],
}
_lv("C11", "handleOutput/handleInfo/ProcessLogBuffer.Write over a scripted stream of <=3 complete lines plus a final fragment with symbolic contents: the in-memory log holds exactly the delivered lines, once, in order, newline stripped, an unterminated last line included; end of stream signalled once. Window: log_length+{99..102,200..202} lines through the real handleOutput: the most recent log_length lines are in the log in order, the last line written is the newest entry. Streams: real Run() on a command that writes to stdout and stderr and exits, the stderr reader delayed at will: when Run() returns every line of both streams is in the log, once, in stream order. Unified log: real Run() with a project-level log file, a 1-2 replica worker and a writer that ends last: every line of every process is in the file once Run() has returned. Log file: real PCLog Open/Info/Error/Close/runCollector + the standard library's bufio.Writer, 1-3 lines, four logger configurations, every collector interleaving within the delay bound: every line handed over before Close is in the file exactly once and in order after Close, and nothing is written after the file was closed.",
    "bufio.ReadString and zerolog modelled by their contracts under symgo (real ones natively); file opening replaced by a sink under symgo; very long lines and rotation are outside - reduced scope.")

PROPS["C16"] = {
    "harnesses": [
        {"pkg": "loader", "name": "VerifC16_Pipeline", "quick": {}, "thorough": {}, "replay_repeat": 60,
         "bounds": {"replicas": "{0,1,2,3}", "launch_timeout": "{-1,0,1}", "namespace": "set/unset", "templated field": "one of 8 renderable fields (command, working dir, log location, description, exec probe command, http probe path/host/port)",
                    "vars": "global only / global + process-local", "map order": "every iteration order in cloneReplicas and renderTemplates of the first run; sorted elsewhere and in the reference run"}},
    ],
    "stubs": ["text/template executed natively by the engine on concrete templates and data", "encoding/json Marshal of the process config: snapshot intrinsic"],
    "assumptions": ["YAML decoding outside; template language limited to the variable references used"],
}
_lv("C16", "The post-merge loader pipeline (setDefaultShell, assignDefaultProcessValues, cloneReplicas, copyWorkingDirToProbes, renderTemplates, assignExecutableAndArgs, templater) run twice with independent symbolic map orders on a project with replicas in [0,3], launch timeout, namespace, one of 8 templated fields and global/local vars: defaults, replica names, per-replica rendering of every templated field, Vars[PC_REPLICA_NUM], and equality of the two runs.",
    "text/template and JSON marshalling are executed natively / as a snapshot intrinsic on concrete data; YAML decoding outside.")

_lv("C02", 'Decision kernel isRestartable/getBackoff for every policy string, exit code, restart count, max_restarts>=0, stop flag (solver-decided, full ranges). Real restart loop of one process (4 scripted exits with run time 0/3 s, policy x max x backoff, one stop request at any labelled instant, delay bound d, virtual time): every relaunch justified by policy and exit code, within max_restarts, not before the back-off, never after a completed stop; restart count = relaunches. Project shutdown kept busy by a slow process: no relaunch of a restart-always worker that exits meanwhile.',
    'Stub Commander through the verif seam; virtual clock; preemption at labelled yields/blocking ops; max_restarts>=0; seconds within 2^31.')

_lv("C03", 'Real runner on 2-process projects: ShutDownProject() arrives at every labelled life-cycle point of either process (explicit choice) with delay bound d, and while a slow-dying process is already being stopped: at return nothing launched is alive and nothing is reported running; afterwards nothing is launched and Run() returns. Daemon: a launched daemon whose shutdown command succeeds / fails / times out is reported stopped and Run() returns. AfterScale: replicas renamed or added by a scale request are ended by a default or ordered project shutdown like any other process.',
    'Stub Commander; N=2; preemption at labelled yields/blocking ops only; OS signals to the binary outside. Known finding: shutdown while Run() still registers processes.')

_lv("C06", 'Decision kernel (*CmdWrapper).Stop/SetCmdArgs for every signal value, parent_only, pid/pgid, Getpgid failure. Escalation: real stopProcess/forceKillOnTimeout/doConfiguredStop/onProcessEnd on one process with virtual time for signal x timeout x parent_only x shutdown command (none/ok/fails/times out) x child ignores SIGTERM or not: configured signal first, SIGKILL only after the timeout with the child still alive or after a failed command, never otherwise; the command gets environment and working directory. ProjectTimeout: under a project shutdown the timeout of each process runs from its own signal, whatever the death latency of the others.',
    'syscall.Getpgid/Kill, os.Process.Signal, the shutdown command and the Commander are stubs; kernel semantics (process groups, descendants, signal delivery to the binary) are outside; neither harness is replayed natively.', technique="bounded symbolic execution of the real SSA with z3 (engine-only: no native replay for these harnesses)")

_lv("C07", 'validateNoCircularDependencies + validateDependencyIsEnabled against a Warshall reference for all graphs over 3 names (+dangling edge; 4 names and all map orders thorough); GetDependenciesOrderNames for all DAGs x disabled/foreground markings x map orders, also with a replicated dependency; selection (NewProjectRunner with requested processes / no-deps) for all DAGs x requested subsets x foreground markings x 1-2 replicas: enabled set = requested + closure, run order = exactly the startable ones.',
    'Project values built directly (YAML outside); admitter/namespace filtering not encoded.')

_lv("C10", "ValidateAndSetDefaults for full-range ints and HTTP target strings; healthCheckCompleted for thresholds [-1,4] over every outcome sequence of 6 checks and every stop instant; real Prober.Start/Stop against go-health's Start/Stop contract for stop before/after the initial delay; process coupling: every outcome sequence of 4 readiness checks x restart policy (Ready/Not Ready, one stop at the threshold, relaunch by policy, readiness forgotten); daemon + liveness: fatal result while launching or after launch, handled by the restart policy.",
    'go-health scheduler replaced by its callback and Start/Stop contract (Lifecycle replays natively against the real one); HTTP/exec checkers not run; Coupling and Daemon are engine-only.')

_lv("C12", 'runningProcessesReverseDependencies for every dependency relation over 3 names x running subset x map order; real ordered ShutDownProject on chain / fan-in / fan-out / diamond with every subset already completed and every termination latency mix: no stop signal while a dependent that was running at shutdown is alive, shutdown completes, unrelated processes are stopped concurrently (witness); a dependent still Pending on process_completed when the shutdown begins does not block it; a disabled dependent that was started by hand is waited for like any other.',
    'Stub Commander; N<=4.')

_lv("C13", 'CalculateReplicaName for every count 1..128 (1..1100 thorough) and symbolic i<j<n; real ScaleProcess from 1-3 replicas (each running, already completed, or waiting out a restart back-off) to {-1,0,1,2,3,9,10,11} (two successive requests thorough), and two successive requests from {99,100,101} across the 99/100 name-width boundary: listed replicas, their state/info/log and rendered configuration equal a fresh load with replicas: n; survivors not restarted, removed terminated, added launched once, bystander untouched, n<1/unknown name rejected.',
    'math.Log10 natively on the concrete count; loader pipeline executed for the reference; text/template natively; JSON snapshot intrinsic.')

_lv("C14", 'ProcessConfig.Compare on two configurations with symbolic launch-relevant settings (executable/args derived by the real AssignProcessExecutableAndArgs): equal implies agreement on every launch-relevant field. Real UpdateProject: process a changed in one of 11 settings or unchanged, b kept or removed, c added or not, k untouched: configured set, status map, instances kept / relaunched once with the new configuration / terminated / launched.',
    'reflect.DeepEqual modelled structurally; go-health stubbed; Update is engine-only.')

_lv("C17", "getProcessEnvironment for symbolic inherited/global/per-process layers under exec's last-duplicate-wins; loadProjectFromFile with os.ExpandEnv interpreted from the standard library's SSA on 1-3 tokens from {literal, $$, $VX, ${VX}, ${VY}} with expansion on/off: expanded text = concatenation of the token images. Project: runner-level launch environment with env_cmds results appended to the project environment (spare capacity): each process sees its own per-process variables only.",
    'os.Environ/ReadFile/Getenv/godotenv/yaml.Unmarshal bound to stubs under symgo (natively the real file, environment and YAML decoder); .env parsing outside.')

_lv("C18", 'GetLogRange for every length 0..1100 and full-int64 offset/limit on an abstract buffer; one Write from boundary states around the trimming point for symbolic size; subscription with any tail length after any number of 4 writes, unsubscribe at any point, concurrent writer (d=3): tail then every later line once, in order; websocket follower that never reads vs 300 writes; websocket follower that disconnects while reading or after it stopped reading: no Write panics or stays held up once the follower is gone.',
    'Abstract backing store for Range; Stall is engine-only (known finding).')
