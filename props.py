# Property table: which harnesses decide which property, with the bounds per tier.
# Each harness entry: pkg (dir under /repo/src), name (harness function), quick/thorough
# (engine options: d = delay bound, workers, wall, ...), bounds (stated, for evidence),
# reach (vacuity witnesses that must be hit), native (False: cannot be replayed natively).

PROPS = {}

PROPS["C18"] = {
    "harnesses": [
        {"pkg": "pclog", "name": "VerifC18_Range", "quick": {}, "thorough": {},
         "bounds": {"len": "[0,1100] symbolic", "offset": "full int64", "limit": "full int64"}},
    ],
    "stubs": [],
    "assumptions": ["buffer length <= size+slack = 1100 (the default configuration's maximum)"],
}

PROPS["C10"] = {
    "harnesses": [
        {"pkg": "health", "name": "VerifC10_Defaults", "quick": {}, "thorough": {},
         "bounds": {"ints": "5 x full int64"}},
        {"pkg": "health", "name": "VerifC10_HttpDefaults", "quick": {}, "thorough": {},
         "bounds": {"strings": "one of host/scheme/path symbolic, len<=3 over {space,ws,letter}; port len<=6 over [+-0-9x]", "num_port": "full int64"}},
        {"pkg": "health", "name": "VerifC10_Threshold", "quick": {}, "thorough": {}, "reach": ["end", "fatal"],
         "bounds": {"failure_threshold": "[-1,4]", "checks": 6, "stop_at": "[0,6]"}},
    ],
    "stubs": ["go-health scheduler: OnComplete after each check with running ContiguousFailures (contract)"],
    "assumptions": [],
}

PROPS["C02"] = {
    "harnesses": [
        {"pkg": "app", "name": "VerifC02_Table", "quick": {}, "thorough": {}, "reach": ["end", "restart.taken", "restart.refused"],
         "bounds": {"policy": "arbitrary string len<=16", "max_restarts": "[0,2^31]", "restarts": "[0,2^31]", "exit_code": "full int64",
                    "backoff_seconds": "[-2^31,2^31]"}},
    ],
    "stubs": [],
    "assumptions": ["max_restarts >= 0 (the statement is silent on negative values)", "second-valued options within +-2^31 (no Duration overflow)"],
}

PROPS["C13"] = {
    "harnesses": [
        {"pkg": "types", "name": "VerifC13_Names", "quick": {}, "thorough": {},
         "bounds": {"replicas": "every n in [1,128] (fork)", "replica numbers": "symbolic 0<=i<j<n"}},
    ],
    "stubs": ["math.Log10 evaluated natively on the concrete replica count"],
    "assumptions": [],
}
