#!/bin/bash
# tools_mut.sh <file under /repo> <python-regex-old> <new> <check-id> [tier]: apply a one-off textual mutation, run the check, restore.
f=$1; old=$2; new=$3; id=$4; tier=${5:-quick}
cp /repo/$f /tmp/mut_backup.$$ 
python3 - "$f" "$old" "$new" <<'PY'
import sys,re
f,old,new=sys.argv[1:4]
p='/repo/'+f
s=open(p).read()
n=s.replace(old,new,1)
if n==s:
    print("MUTATION DID NOT APPLY"); sys.exit(1)
open(p,'w').write(n)
PY
[ $? -ne 0 ] && exit 9
(cd /repo && GOFLAGS=-mod=mod GOPROXY=off go build ./... ) || echo "BUILD FAILED"
/verif/check $id $tier | grep -v "^symgo\|^  violation" | head -20
echo "rc=${PIPESTATUS[0]}"
cp /tmp/mut_backup.$$ /repo/$f; rm /tmp/mut_backup.$$
cd /repo && git status --short | head
